package e3

import (
	"encoding/json"
	"fmt"
	"os"
	"path/filepath"
	"strings"
	"time"

	"verifsim/detsim"
)

const EngineName = "E3-injector-directory-simulator"

type Outcome struct {
	V           *detsim.Violation
	NonTrivial  bool
	Probes      detsim.Counter
	Faults      detsim.Counter
	Invocations int
	Hash        uint64 // hash of the final directory content and of every intermediate verdict
}

// RunPlan executes a history in root (which is wiped first).
func RunPlan(cli, root string, solo *SoloCache, p *Plan) *Outcome {
	w, err := NewWorld(cli, root, solo, p)
	if err != nil {
		return &Outcome{V: &detsim.Violation{Class: "harness", Detail: err.Error()}}
	}
	out := &Outcome{Probes: w.Probes, Faults: w.Faults}
	// which names carry which kind of badness (for probes and non-triviality)
	bad := map[string]string{}
	note := func(e *Entry) {
		switch {
		case e.Perm != "":
			bad[e.Name] = "perm:" + e.Perm
		case e.Kind == KGo && e.Break != "":
			bad[e.Name] = "break:" + e.Break
		case e.Kind == KGo && e.Shape != "":
			bad[e.Name] = "shape:" + e.Shape
		case e.Kind == KGo:
			delete(bad, e.Name)
		default:
			bad[e.Name] = e.Kind
		}
	}
	for i := range p.Entries {
		note(&p.Entries[i])
		if bl := faultLabel(&p.Entries[i]); bl != "replace" {
			w.Faults.Add("initial_"+bl, 1)
		}
	}
	nontrivInv := 0
	for i := range p.Events {
		ev := &p.Events[i]
		switch ev.Op {
		case EvFault:
			note(ev.Entry)
		case EvHeal:
			if _, ok := w.healthy[ev.Target]; ok {
				delete(bad, ev.Target)
			}
		case EvEdit:
		default:
			nb, nh := 0, 0
			var badKinds []string
			for _, n := range w.scope(ev) {
				if k, ok := bad[n]; ok {
					nb++
					badKinds = append(badKinds, k)
				} else if c, ok := w.contentOf(n); ok && strings.Contains(c, "@tag") && strings.HasSuffix(n, ".go") {
					nh++
				}
			}
			if nb > 0 && nh > 0 {
				nontrivInv++
				for _, k := range badKinds {
					w.Probes.Add("bad_with_healthy_neighbour|"+k+"|"+ev.Op, 1)
				}
			}
		}
		if v := w.Step(i, ev); v != nil {
			out.V = v
			break
		}
	}
	out.Invocations = w.Invocations
	h := uint64(1469598103934665603)
	s := w.snapshot()
	for _, n := range s.names() {
		h = detsim.HashAdd(h, detsim.Hash64(n+"\x00"+s[n]))
	}
	if out.V != nil {
		h = detsim.HashAdd(h, detsim.Hash64(out.V.Class+"/"+out.V.Sub))
	}
	out.Hash = h
	switch p.Prop {
	case "C07":
		ov := false
		for i := range p.Entries {
			if p.Entries[i].File != nil {
				if o, _ := p.Entries[i].File.Overrides(); o {
					ov = true
				}
			}
		}
		re := w.Probes["reprocessed_"+EvRunD]+w.Probes["reprocessed_"+EvRunF]+w.Probes["reprocessed_"+EvRunP] > 0
		out.NonTrivial = re && ov
		if ov {
			w.Probes.Add("history_with_override_in_place", 1)
		}
	default:
		out.NonTrivial = nontrivInv > 0
	}
	os.RemoveAll(root)
	return out
}

func (w *World) contentOf(name string) (string, bool) {
	b, err := os.ReadFile(w.path(name))
	if err != nil {
		return "", false
	}
	return string(b), true
}

// ---------------------------------------------------------------- shrinking

func clonePlan(p *Plan) *Plan {
	b, _ := json.Marshal(p)
	q := &Plan{}
	json.Unmarshal(b, q)
	return q
}

// Shrink reduces a failing plan while test keeps returning the same class/sub.
func Shrink(p *Plan, fails func(*Plan) bool, budget time.Duration) (*Plan, int) {
	deadline := time.Now().Add(budget)
	cur := clonePlan(p)
	steps := 0
	try := func(c *Plan) bool {
		if time.Now().After(deadline) {
			return false
		}
		if fails(c) {
			cur = c
			steps++
			return true
		}
		return false
	}
	progress := true
	for progress && time.Now().Before(deadline) {
		progress = false
		for i := len(cur.Events) - 1; i >= 0; i-- {
			c := clonePlan(cur)
			c.Events = append(c.Events[:i], c.Events[i+1:]...)
			if try(c) {
				progress = true
			}
		}
		for i := len(cur.Entries) - 1; i >= 0; i-- {
			c := clonePlan(cur)
			c.Entries = append(c.Entries[:i], c.Entries[i+1:]...)
			if try(c) {
				progress = true
			}
		}
		files := func(c *Plan) []*GoFile {
			var l []*GoFile
			for i := range c.Entries {
				if c.Entries[i].File != nil {
					l = append(l, c.Entries[i].File)
				}
			}
			for i := range c.Events {
				if c.Events[i].Entry != nil && c.Events[i].Entry.File != nil {
					l = append(l, c.Events[i].Entry.File)
				}
			}
			return l
		}
		nf := len(files(cur))
		for fi := 0; fi < nf; fi++ {
			// drop structs
			for si := len(files(cur)[fi].Structs) - 1; si >= 0; si-- {
				c := clonePlan(cur)
				f := files(c)[fi]
				if len(f.Structs) <= 1 {
					break
				}
				f.Structs = append(f.Structs[:si], f.Structs[si+1:]...)
				if try(c) {
					progress = true
				}
			}
			// drop fields
			for si := 0; si < len(files(cur)[fi].Structs); si++ {
				for k := len(files(cur)[fi].Structs[si].Fields) - 1; k >= 0; k-- {
					c := clonePlan(cur)
					s := &files(c)[fi].Structs[si]
					s.Fields = append(s.Fields[:k], s.Fields[k+1:]...)
					if try(c) {
						progress = true
					}
				}
			}
			// plainer file
			for _, f := range []func(*GoFile) bool{
				func(g *GoFile) bool { ok := g.Header; g.Header = false; return ok },
				func(g *GoFile) bool { ok := g.Methods; g.Methods = false; return ok },
				func(g *GoFile) bool { ok := g.Alias; g.Alias = false; return ok },
				func(g *GoFile) bool {
					ok := false
					for i := range g.Structs {
						ok = ok || g.Structs[i].Protoimpl
						g.Structs[i].Protoimpl = false
						for k := range g.Structs[i].Fields {
							fl := &g.Structs[i].Fields[k]
							ok = ok || fl.Doc != "" || fl.Trailing != ""
							fl.Doc, fl.Trailing = "", ""
						}
					}
					return ok
				},
			} {
				c := clonePlan(cur)
				if f(files(c)[fi]) && try(c) {
					progress = true
				}
			}
			// fewer injected keys / existing tags
			for si := 0; si < len(files(cur)[fi].Structs); si++ {
				for k := 0; k < len(files(cur)[fi].Structs[si].Fields); k++ {
					for j := len(files(cur)[fi].Structs[si].Fields[k].Inject) - 1; j >= 0; j-- {
						c := clonePlan(cur)
						fl := &files(c)[fi].Structs[si].Fields[k]
						if len(fl.Inject) <= 1 {
							break
						}
						fl.Inject = append(fl.Inject[:j], fl.Inject[j+1:]...)
						if try(c) {
							progress = true
						}
					}
					for j := len(files(cur)[fi].Structs[si].Fields[k].Tags) - 1; j >= 0; j-- {
						c := clonePlan(cur)
						fl := &files(c)[fi].Structs[si].Fields[k]
						if len(fl.Tags) <= 1 {
							break
						}
						fl.Tags = append(fl.Tags[:j], fl.Tags[j+1:]...)
						if try(c) {
							progress = true
						}
					}
				}
			}
		}
	}
	return cur, steps
}

// ---------------------------------------------------------------- replay files

func WriteReplay(path string, prop, tier string, seed, idx uint64, tree string, p *Plan, v *detsim.Violation, hash uint64, minimised bool, steps int, note string) error {
	raw, _ := json.Marshal(p)
	rf := &detsim.ReplayFile{Property: prop, Engine: EngineName, Tier: tier, BatchSeed: seed, Index: idx, RunSeed: detsim.Mix(seed, prop+"/"+tier, idx),
		RepoTreeHash: tree, Plan: raw, Violation: v, EventLogHash: fmt.Sprintf("%016x", hash), Minimised: minimised, ShrinkSteps: steps, Note: note}
	os.MkdirAll(filepath.Dir(path), 0o755)
	return rf.Write(path)
}
