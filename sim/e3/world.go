package e3

import (
	"bytes"
	"crypto/sha256"
	"fmt"
	"go/parser"
	"go/token"
	"os"
	"os/exec"
	"path/filepath"
	"regexp"
	"sort"
	"strings"
	"sync"
	"sync/atomic"
	"syscall"
	"unsafe"

	"verifsim/detsim"
)

// Entry kinds of a simulated directory.
const (
	KGo      = "go"      // a Go file rendered from File (+ optional Break)
	KText    = "text"    // a non-.go name whose text is an annotated Go file
	KDir     = "dir"     // a sub-directory (its name may end in .go)
	KSymlink = "symlink" // a dangling symbolic link
	KRaw     = "raw"     // literal content
)

type Entry struct {
	Name  string  `json:"name"`
	Kind  string  `json:"kind"`
	File  *GoFile `json:"file,omitempty"`
	Break string  `json:"break,omitempty"` // parse-breaking fault applied to the rendered text
	Arg   int     `json:"arg,omitempty"`
	Raw   string  `json:"raw,omitempty"`
	Shape string  `json:"shape,omitempty"` // which unexpected shape File contains (for statistics)
	Perm  string  `json:"perm,omitempty"`  // F13: "ro" = the file cannot be written (mode 0444), "noread" = it cannot even be read (mode 0000); the tool then runs as an unprivileged user
}

func (e *Entry) Content() string {
	switch e.Kind {
	case KRaw:
		return e.Raw
	case KGo, KText:
		c := e.File.Render()
		if e.Break != "" {
			c = ApplyBreak(c, e.Break, e.Arg)
		}
		return c
	}
	return ""
}

// Events of a history.
const (
	EvRunF  = "run-f"
	EvRunD  = "run-d"
	EvRunP  = "run-p"
	EvFault = "fault" // replace/add an entry by a faulted one
	EvHeal  = "heal"  // restore an entry to its healthy content
	// EvEdit: the user edits some of the "@tag" comments of a Go file AS IT IS NOW on disk (a value changed, an item added,
	// dropped or moved) - after earlier runs the file then mixes fields whose literal is up to date with fields that are
	// pending again, a state neither a fresh nor a healed file is ever in (seeded C07u skipped up-to-date fields and leaked
	// their annotation into the next pending one)
	EvEdit = "edit"
)

type Event struct {
	Op     string `json:"op"`
	Target string `json:"target,omitempty"` // file name (run-f, fault, heal) or glob (run-p), relative to the directory
	Entry  *Entry `json:"entry,omitempty"`  // fault: the new entry
	Form   int    `json:"form,omitempty"`   // run-*: 0 "d/x", 1 "./d/x", 2 absolute path, 3 "d/" with a trailing slash (run-d only)
	// the environment of the invocation - things a build machine, a terminal and a calendar change under the tool:
	Stdio string `json:"stdio,omitempty"` // "" = stdout/stderr are pipes, "pty" = a terminal, "null" = /dev/null (a character device that swallows the panic text: a crash is then known by exit status 2)
	TZ    string `json:"tz,omitempty"`    // TZ of the process ("" = unset)
	At    int64  `json:"at,omitempty"`    // > 0: the invocation happens at this Unix time (the tool is then the build whose clock calls are redirected, see ClockCLI)
	Arg   int    `json:"arg,omitempty"`   // edit: decides which annotations are edited and how
}

// ClockCLI is the path of a second build of the tool, from a copy of the tree in which time.Now / Since / Until / Sleep are
// redirected to a clock that starts at $VERIF_CLOCK_UNIX (set by the driver; "" = not built: At is ignored).
var ClockCLI string

type runOpts struct {
	unpriv bool
	stdio  string
	tz     string
	at     int64
}

func (w *World) opts(ev *Event) runOpts {
	return runOpts{unpriv: w.unpriv, stdio: ev.Stdio, tz: ev.TZ, at: ev.At}
}

// arg renders the path argument of an invocation.
func (w *World) arg(ev *Event) string {
	p := "d"
	if ev.Op != EvRunD {
		p = filepath.Join("d", ev.Target)
	}
	switch ev.Form {
	case 1:
		return "./" + p
	case 2:
		return filepath.Join(w.root, p)
	case 3:
		if ev.Op == EvRunD {
			return p + "/"
		}
	}
	return p
}

type Plan struct {
	Prop    string  `json:"prop"`
	Entries []Entry `json:"entries"`
	Events  []Event `json:"events"`
	Case    string  `json:"case,omitempty"` // label of a systematic case
}

// Unpriv reports whether the history contains permission faults: the tool is
// then run as an unprivileged user (root ignores file modes).
func (p *Plan) Unpriv() bool {
	for i := range p.Entries {
		if p.Entries[i].Perm != "" {
			return true
		}
	}
	for i := range p.Events {
		if p.Events[i].Entry != nil && p.Events[i].Entry.Perm != "" {
			return true
		}
	}
	return false
}

// CanDropPrivileges: permission faults need the harness to be root.
func CanDropPrivileges() bool { return os.Geteuid() == 0 }

// World is one scratch directory plus the bookkeeping of the oracles.
type World struct {
	optional map[string]bool // targets of in-scope links that the invocation does not name itself
	cli      string
	root     string // scratch root; the simulated directory is root/d, an out-of-scope sibling is root/other
	solo     *SoloCache
	plan     *Plan
	// healthy content per name (for heal events)
	healthy map[string]string
	// hash of the content after the last invocation that processed the file
	processed   map[string][32]byte
	perm        map[string]string // name -> "ro" / "noread" for entries with a permission fault
	unpriv      bool
	Probes      detsim.Counter
	Faults      detsim.Counter
	Invocations int
	Log         []string
}

// SoloCache memoises solo(f) per content hash across histories of one worker.
type SoloCache struct {
	mu  sync.Mutex
	cli string
	dir string
	m   map[[32]byte]soloRes
	n   int
}

type soloRes struct {
	out     []byte
	crashed bool
	stderr  string
}

func NewSoloCache(cli, dir string) *SoloCache {
	os.MkdirAll(dir, 0o755)
	return &SoloCache{cli: cli, dir: dir, m: map[[32]byte]soloRes{}}
}

type runResult struct {
	exit    int
	signal  string
	stderr  string
	crashed bool
}

var goroutineRe = regexp.MustCompile(`goroutine \d+ \[running\]`)

func runCLI(cli, cwd string, args ...string) runResult {
	return runCLIOpts(runOpts{}, cli, cwd, args...)
}

// openPty returns the master side and the path of the slave side of a new pseudo terminal.
func openPty() (*os.File, string, error) {
	m, err := os.OpenFile("/dev/ptmx", os.O_RDWR|syscall.O_NOCTTY, 0)
	if err != nil {
		return nil, "", err
	}
	var n uint32
	if _, _, e := syscall.Syscall(syscall.SYS_IOCTL, m.Fd(), syscall.TIOCGPTN, uintptr(unsafe.Pointer(&n))); e != 0 {
		m.Close()
		return nil, "", e
	}
	var unlock int32
	if _, _, e := syscall.Syscall(syscall.SYS_IOCTL, m.Fd(), syscall.TIOCSPTLCK, uintptr(unsafe.Pointer(&unlock))); e != 0 {
		m.Close()
		return nil, "", e
	}
	return m, fmt.Sprintf("/dev/pts/%d", n), nil
}

// cpuLimit: CPU seconds one invocation of the tool may use before it counts as hung - 4 s plus 2 s per megabyte under the
// working directory (the bulk directories of 36 MB need about two seconds in all on the machine this was written on). Once a
// hang has been seen in this process the base drops to 1 s, so that a tree that hangs on many inputs does not cost the check
// twenty minutes.
var hangSeen int32

func cpuLimit(cwd string) uint64 {
	var bytes int64
	filepath.Walk(cwd, func(_ string, fi os.FileInfo, err error) error {
		if err == nil && fi.Mode().IsRegular() {
			bytes += fi.Size()
		}
		return nil
	})
	base := uint64(4)
	if atomic.LoadInt32(&hangSeen) != 0 {
		base = 1
	}
	return base + 2*uint64(bytes>>20)
}

// runCLIOpts runs the tool; optionally as user nobody (65534: file modes then mean something), with its output on a
// terminal or on /dev/null instead of pipes, under another TZ, at another time.
func runCLIOpts(o runOpts, cli, cwd string, args ...string) runResult {
	if o.at > 0 && ClockCLI != "" {
		cli = ClockCLI
	}
	cmd := exec.Command(cli, args...)
	if o.unpriv {
		cmd.SysProcAttr = &syscall.SysProcAttr{Credential: &syscall.Credential{Uid: 65534, Gid: 65534}}
	}
	cmd.Dir = cwd
	var eb bytes.Buffer
	var ptyDone chan struct{}
	var master, slave, null *os.File
	stdio := o.stdio
	if stdio == "pty" {
		m, name, err := openPty()
		if err == nil {
			slave, err = os.OpenFile(name, os.O_RDWR|syscall.O_NOCTTY, 0)
			if err != nil {
				m.Close()
			} else {
				master = m
			}
		}
		if master == nil {
			stdio = "null" // no pseudo terminals here: the other character device
		}
	}
	switch stdio {
	case "pty":
		cmd.Stderr, cmd.Stdout = slave, slave
		ptyDone = make(chan struct{})
		go func() {
			defer close(ptyDone)
			buf := make([]byte, 4096)
			for {
				n, err := master.Read(buf)
				eb.Write(buf[:n])
				if err != nil {
					return // EIO once the last slave descriptor is closed
				}
			}
		}()
	case "null":
		null, _ = os.OpenFile("/dev/null", os.O_WRONLY, 0)
		cmd.Stderr, cmd.Stdout = null, null
	default:
		cmd.Stderr = &eb
		cmd.Stdout = &eb
	}
	cmd.Env = []string{"GOPATH=/nonexistent", "HOME=/nonexistent", "GOTRACEBACK=single", "GODEBUG=randautoseed=0"}
	if o.tz != "" {
		cmd.Env = append(cmd.Env, "TZ="+o.tz)
	}
	if o.at > 0 {
		cmd.Env = append(cmd.Env, fmt.Sprintf("VERIF_CLOCK_UNIX=%d", o.at))
	}
	// a tool that spins forever on some input never gets to the remaining files: its CPU time is limited (in CPU seconds, which
	// a slow or busy machine does not stretch; the biggest directories of the corpus need about two), and the kernel's SIGXCPU
	// then ends it like any other fatal signal
	err := cmd.Start()
	if err == nil {
		cpuLimitSeconds := cpuLimit(cwd)
		lim := [2]uint64{cpuLimitSeconds, cpuLimitSeconds} // the Go runtime ignores SIGXCPU (soft limit); at the hard limit the kernel sends SIGKILL
		syscall.RawSyscall6(syscall.SYS_PRLIMIT64, uintptr(cmd.Process.Pid), 0 /* RLIMIT_CPU */, uintptr(unsafe.Pointer(&lim)), 0, 0, 0)
		err = cmd.Wait()
	}
	if slave != nil {
		slave.Close()
		<-ptyDone
		master.Close()
	}
	if null != nil {
		null.Close()
	}
	r := runResult{stderr: eb.String()}
	if err != nil {
		if ee, ok := err.(*exec.ExitError); ok {
			r.exit = ee.ExitCode()
			if ws, ok := ee.Sys().(syscall.WaitStatus); ok && ws.Signaled() {
				r.signal = ws.Signal().String()
				r.crashed = true
				if ws.Signal() == syscall.SIGXCPU || ws.Signal() == syscall.SIGKILL {
					atomic.StoreInt32(&hangSeen, 1)
					r.stderr = "panic: hang: the tool used more CPU time on this invocation than any input of this size needs and was ended by the kernel (RLIMIT_CPU)\n" + clip(r.stderr)
				}
			}
		} else {
			r.exit = -1
			r.stderr += "\n" + err.Error()
		}
	}
	if (strings.Contains(r.stderr, "panic:") || strings.Contains(r.stderr, "fatal error:")) && goroutineRe.MatchString(r.stderr) {
		r.crashed = true
	}
	if stdio == "null" && r.exit == 2 {
		// the Go runtime ends a panicking process with status 2; the tool itself never exits with it for the arguments used here
		r.crashed = true
		r.stderr = "panic: (text not available: the output of this invocation went to /dev/null; exit status 2)"
	}
	return r
}

// Solo returns what the tool makes of content when it is alone: -f on a
// private copy in an otherwise empty directory.
func (s *SoloCache) Solo(content []byte) soloRes {
	h := sha256.Sum256(content)
	s.mu.Lock()
	if r, ok := s.m[h]; ok {
		s.mu.Unlock()
		return r
	}
	s.n++
	d := filepath.Join(s.dir, fmt.Sprintf("solo%d", s.n))
	s.mu.Unlock()
	os.MkdirAll(d, 0o755)
	defer os.RemoveAll(d)
	f := filepath.Join(d, "solo.pb.go")
	os.WriteFile(f, content, 0o644)
	rr := runCLI(s.cli, d, "-f", f)
	out, _ := os.ReadFile(f)
	res := soloRes{out: out, crashed: rr.crashed, stderr: rr.stderr}
	s.mu.Lock()
	if len(s.m) > 50000 {
		s.m = map[[32]byte]soloRes{}
	}
	s.m[h] = res
	s.mu.Unlock()
	return res
}

func parses(content []byte) bool {
	_, err := parser.ParseFile(token.NewFileSet(), "x.go", content, parser.ParseComments)
	return err == nil
}

func NewWorld(cli, root string, solo *SoloCache, p *Plan) (*World, error) {
	w := &World{cli: cli, root: root, solo: solo, plan: p, healthy: map[string]string{}, processed: map[string][32]byte{},
		perm: map[string]string{}, unpriv: p.Unpriv(), Probes: detsim.Counter{}, Faults: detsim.Counter{}}
	os.RemoveAll(root)
	if err := os.MkdirAll(filepath.Join(root, "d"), 0o755); err != nil {
		return nil, err
	}
	os.MkdirAll(filepath.Join(root, "other"), 0o755)
	if w.unpriv {
		if !CanDropPrivileges() {
			return nil, fmt.Errorf("plan with permission faults but the harness is not root")
		}
		// the unprivileged tool must be able to reach the directory: open up every ancestor that is ours
		for d := root; d != "/" && d != "." && strings.Contains(d, "verif-"); d = filepath.Dir(d) {
			os.Chmod(d, 0o755)
		}
		os.Chmod(filepath.Join(root, "d"), 0o777)
		os.Chmod(filepath.Join(root, "other"), 0o777)
	}
	// out-of-scope files: a sibling directory and (if the plan has a sub-directory) files inside it
	os.WriteFile(filepath.Join(root, "other", "zz.pb.go"), []byte(outOfScope), 0o644)
	for i := range p.Entries {
		if err := w.place(&p.Entries[i]); err != nil {
			return nil, err
		}
		e := &p.Entries[i]
		if e.Kind == KGo && e.Break == "" {
			w.healthy[e.Name] = e.Content()
		} else if e.Kind == KGo {
			h := *e
			h.Break = ""
			w.healthy[e.Name] = h.Content()
		}
	}
	return w, nil
}

const outOfScope = "package other\n\ntype Z struct {\n\tA string `json:\"a\"` // out of scope @tag valid:\"required\"\n}\n"

func (w *World) path(name string) string { return filepath.Join(w.root, "d", name) }

func (w *World) place(e *Entry) error {
	p := w.path(e.Name)
	os.RemoveAll(p)
	switch e.Kind {
	case KDir:
		if err := os.MkdirAll(p, 0o755); err != nil {
			return err
		}
		return os.WriteFile(filepath.Join(p, "inner.pb.go"), []byte(outOfScope), 0o644)
	case KSymlink:
		if strings.HasPrefix(e.Raw, "file:") && len(e.Raw) > 5 {
			// a second name for a Go file of the same directory (relative link)
			return os.Symlink(e.Raw[5:], p)
		}
		if e.Raw == "dir" {
			// a symbolic link named like a Go file that points to a directory (outside the simulated one)
			return os.Symlink(filepath.Join(w.root, "other"), p)
		}
		return os.Symlink(filepath.Join(w.root, "d", "does-not-exist-target"), p)
	}
	if err := os.WriteFile(p, []byte(e.Content()), 0o644); err != nil {
		return err
	}
	delete(w.perm, e.Name)
	if w.unpriv {
		mode := os.FileMode(0o666)
		switch e.Perm {
		case "ro":
			mode = 0o444
		case "noread":
			mode = 0
		}
		if e.Perm != "" {
			w.perm[e.Name] = e.Perm
		}
		return os.Chmod(p, mode)
	}
	return nil
}

// snapshot of every entry under root (files: bytes; dirs; symlinks: target)
type snap map[string]string

func (w *World) snapshot() snap {
	s := snap{}
	filepath.Walk(w.root, func(p string, info os.FileInfo, err error) error {
		if err != nil {
			return nil
		}
		rel, _ := filepath.Rel(w.root, p)
		switch {
		case info.Mode()&os.ModeSymlink != 0:
			t, _ := os.Readlink(p)
			if st, err := os.Stat(p); err == nil && st.Mode().IsRegular() && !strings.Contains(t, "/") {
				// a second name for a regular file of the same directory: judged by the bytes one reads through the name
				// (a tool that replaces files by rename turns the link into a file of its own; no property forbids that)
				b, _ := os.ReadFile(p)
				s[rel] = "F:" + string(b)
				break
			}
			s[rel] = "L:" + t
		case info.IsDir():
			s[rel] = "D"
		default:
			b, _ := os.ReadFile(p)
			s[rel] = "F:" + string(b)
		}
		return nil
	})
	return s
}

func (s snap) names() []string {
	l := make([]string, 0, len(s))
	for k := range s {
		l = append(l, k)
	}
	sort.Strings(l)
	return l
}

// scope returns the names (relative to d) the invocation hands to the tool's per-file routine.
func (w *World) scope(ev *Event) []string {
	l := w.scopeNames(ev)
	named := map[string]bool{}
	for _, n := range l {
		named[n] = true
	}
	// names of one and the same file (a file and the symbolic links of the directory that point to it) stand or fall together:
	// naming one of them brings the others into scope. A tool that writes in place changes them all, a tool that replaces files
	// by rename changes only the name it was given - both are fine, so the others may also stay as they are (w.optional)
	w.optional = map[string]bool{}
	ents, _ := os.ReadDir(filepath.Join(w.root, "d"))
	groups := map[string][]string{}
	for _, e := range ents {
		p := w.path(e.Name())
		if st, err := os.Stat(p); err != nil || !st.Mode().IsRegular() {
			continue
		}
		if rp, err := filepath.EvalSymlinks(p); err == nil {
			groups[rp] = append(groups[rp], e.Name())
		}
	}
	for _, g := range groups {
		hit := false
		for _, n := range g {
			hit = hit || named[n]
		}
		if !hit || len(g) < 2 {
			continue
		}
		for _, n := range g {
			if !named[n] {
				l = append(l, n)
				w.optional[n] = true
			}
		}
	}
	return l
}

func (w *World) scopeNames(ev *Event) []string {
	switch ev.Op {
	case EvRunF:
		return []string{ev.Target}
	case EvRunD:
		ents, _ := os.ReadDir(filepath.Join(w.root, "d"))
		var l []string
		for _, e := range ents {
			if !e.IsDir() {
				l = append(l, e.Name())
			}
		}
		return l
	case EvRunP:
		m, _ := filepath.Glob(filepath.Join(w.root, "d", ev.Target))
		var l []string
		for _, p := range m {
			l = append(l, filepath.Base(p))
		}
		return l
	}
	return nil
}

// Step executes one event and evaluates the oracles of both properties; the
// first violation (in a fixed order of checks) is returned.
func (w *World) Step(idx int, ev *Event) *detsim.Violation {
	switch ev.Op {
	case EvFault:
		w.Faults.Add("event_fault_"+faultLabel(ev.Entry), 1)
		if err := w.place(ev.Entry); err != nil {
			return &detsim.Violation{Class: "harness", Detail: err.Error()}
		}
		if _, ok := w.healthy[ev.Entry.Name]; !ok && ev.Entry.Kind == KGo {
			h := *ev.Entry
			h.Break = ""
			w.healthy[ev.Entry.Name] = h.Content()
		}
		delete(w.processed, ev.Entry.Name)
		return nil
	case EvHeal:
		c, ok := w.healthy[ev.Target]
		if !ok {
			return nil
		}
		w.Faults.Add("event_heal", 1)
		os.RemoveAll(w.path(ev.Target))
		os.WriteFile(w.path(ev.Target), []byte(c), 0o644)
		delete(w.perm, ev.Target)
		if w.unpriv {
			os.Chmod(w.path(ev.Target), 0o666)
		}
		delete(w.processed, ev.Target)
		w.Probes.Add("healed_then_processed_candidates", 1)
		return nil
	case EvEdit:
		p := w.path(ev.Target)
		st, err := os.Lstat(p)
		if err != nil || !st.Mode().IsRegular() || !strings.HasSuffix(ev.Target, ".go") || w.perm[ev.Target] != "" {
			return nil
		}
		b, err := os.ReadFile(p)
		if err != nil || !parses(b) {
			return nil
		}
		nb, n := EditAnnotations(string(b), ev.Arg)
		if n == 0 || !parses([]byte(nb)) {
			return nil
		}
		os.WriteFile(p, []byte(nb), st.Mode().Perm())
		w.Faults.Add("event_edit_of_annotations", 1)
		w.Probes.Add("annotations_edited", int64(n))
		if _, ok := w.processed[ev.Target]; ok {
			w.Probes.Add("edited_after_it_had_been_processed", 1)
		}
		return nil
	}
	before := w.snapshot()
	inScope := map[string]bool{}
	for _, n := range w.scope(ev) {
		inScope[n] = true
	}
	var rr runResult
	switch ev.Op {
	case EvRunF:
		rr = runCLIOpts(w.opts(ev), w.cli, w.root, "-f", w.arg(ev))
	case EvRunD:
		rr = runCLIOpts(w.opts(ev), w.cli, w.root, "-d", w.arg(ev))
	case EvRunP:
		rr = runCLIOpts(w.opts(ev), w.cli, w.root, "-p", w.arg(ev))
	}
	if ev.Stdio != "" {
		w.Probes.Add("stdio_"+ev.Stdio, 1)
	}
	if ev.TZ != "" {
		w.Probes.Add("tz_set", 1)
	}
	if ev.At > 0 && ClockCLI != "" {
		w.Probes.Add("invocations_at_a_simulated_time", 1)
	}
	w.Invocations++
	w.Probes.Add("mode_"+ev.Op, 1)
	after := w.snapshot()
	where := fmt.Sprintf("event #%d %s %s", idx, ev.Op, ev.Target)

	c19 := w.plan.Prop != "C07"
	c07 := w.plan.Prop != "C19"
	if rr.crashed && !c19 {
		// crashes are C19's subject; the history goes on (files stay as the crashed run left them)
		w.Probes.Add("crash_during_C07_history", 1)
	}
	// (C19.1) no crash
	if rr.crashed && c19 {
		first := rr.stderr
		if i := strings.Index(first, "panic:"); i >= 0 {
			first = first[i:]
		} else if i := strings.Index(first, "fatal error:"); i >= 0 {
			first = first[i:]
		}
		if len(first) > 900 {
			first = first[:900]
		}
		culprit := ""
		for _, n := range sortedKeys(inScope) {
			b, ok := before[filepath.Join("d", n)]
			if ok && strings.HasPrefix(b, "F:") && strings.HasSuffix(n, ".go") && parses([]byte(b[2:])) {
				if s := w.solo.Solo([]byte(b[2:])); s.crashed {
					culprit = n
					break
				}
			}
		}
		sub := crashSub(first)
		return &detsim.Violation{Class: "crash", Sub: sub, Detail: fmt.Sprintf("%s: the tool crashed (exit %d %s), file that crashes it alone: %q\n%s", where, rr.exit, rr.signal, culprit, first)}
	}
	// entries may not appear or disappear
	for _, n := range after.names() {
		if _, ok := before[n]; !ok {
			// no listed property forbids the tool to leave new entries behind (a backup, a temporary file): counted, not judged
			w.Probes.Add("entry_created_by_tool", 1)
		}
	}
	var judged []string
	for _, n := range before.names() {
		b, a := before[n], after[n]
		dir, base := filepath.Split(n)
		inD := filepath.Clean(dir) == "d"
		scoped := inD && inScope[base]
		isFile := strings.HasPrefix(b, "F:")
		content := []byte(strings.TrimPrefix(b, "F:"))
		switch {
		case !c19 && (!scoped || !isFile || !strings.HasSuffix(base, ".go") || !parses(content)):
			// C07 judges only files the tool processes
		case !scoped:
			// (C19.4) out of scope: byte-identical
			if a != b {
				return &detsim.Violation{Class: "out-of-scope-changed", Detail: fmt.Sprintf("%s: %q is outside the invocation's scope and was modified", where, n)}
			}
		case !isFile:
			// (C19.2) non-regular entries
			if a != b {
				return &detsim.Violation{Class: "faulted-file-changed", Sub: "non-regular", Detail: fmt.Sprintf("%s: non-regular entry %q changed from %q to %q", where, n, clip(b), clip(a))}
			}
			w.Probes.Add("nonregular_in_scope", 1)
		case !strings.HasSuffix(base, ".go"):
			if a != b {
				return &detsim.Violation{Class: "faulted-file-changed", Sub: "not-a-go-file", Detail: fmt.Sprintf("%s: %q is not a .go file and was modified", where, n)}
			}
			w.Probes.Add("non_go_in_scope", 1)
		case c19 && inD && w.perm[base] == "noread":
			// the tool cannot even read this file: whatever it is, it must stay as it is
			if a != b {
				return &detsim.Violation{Class: "faulted-file-changed", Sub: "no-permission", Detail: fmt.Sprintf("%s: %q (unreadable for the tool's user) was modified", where, n)}
			}
			w.Probes.Add("no_permission_in_scope", 1)
		case c19 && inD && w.perm[base] == "ro" && strings.HasSuffix(base, ".go") && parses(content):
			// a read-only file can be read but not written in place; an implementation that replaces files by
			// rename may still succeed. Either way nothing but "unchanged" or "its solo result" is acceptable.
			if a != b {
				if sr := w.solo.Solo(content); sr.crashed || strings.TrimPrefix(a, "F:") != string(sr.out) {
					return &detsim.Violation{Class: "neighbour-damaged", Sub: "read-only-file", Detail: fmt.Sprintf("%s: read-only %q is neither unchanged nor what the tool makes of it alone", where, n)}
				}
				w.Probes.Add("read_only_file_replaced", 1)
			}
			w.Probes.Add("no_permission_in_scope", 1)
		case !parses(content):
			if a != b {
				return &detsim.Violation{Class: "faulted-file-changed", Sub: "does-not-parse", Detail: fmt.Sprintf("%s: %q does not parse and was modified:\n--- before\n%s\n--- after\n%s", where, n, clip(b[2:]), clip(strings.TrimPrefix(a, "F:")))}
			}
			w.Probes.Add("unparsable_in_scope", 1)
		default:
			judged = append(judged, n)
		}
	}
	// (C19.3) every processable file equals its solo result, whatever its neighbours are;
	// (C07.1/2) idempotence and no-annotation no-op
	for _, n := range judged {
		b, a := before[n], after[n]
		base := filepath.Base(n)
		content := []byte(b[2:])
		got := strings.TrimPrefix(a, "F:")
		if !c07 {
			s := w.solo.Solo(content)
			if s.crashed {
				return &detsim.Violation{Class: "crash", Sub: crashSub(s.stderr), Detail: fmt.Sprintf("%s: %q crashes the tool when processed alone", where, n)}
			}
			if a == b && w.optional[base] {
				w.Probes.Add("link_target_left_alone", 1)
				continue
			}
			if got != string(s.out) {
				cls := "neighbour-damaged"
				if a == b {
					cls = "neighbour-not-processed"
				}
				return &detsim.Violation{Class: cls, Detail: fmt.Sprintf("%s: %q differs from what the tool makes of the same bytes alone (-f in an empty directory)\n--- in this directory\n%s\n--- alone\n%s", where, n, clip(got), clip(string(s.out)))}
			}
			continue
		}
		if rr.crashed {
			// the run did not finish: whether this file was reached is unknown
			delete(w.processed, base)
			continue
		}
		hb := sha256.Sum256(content)
		if ph, ok := w.processed[base]; ok && ph == hb {
			w.Probes.Add("reprocessed_"+ev.Op, 1)
			if a != b {
				return &detsim.Violation{Class: "not-idempotent", Sub: "second-run-changes", Detail: fmt.Sprintf("%s: %q had already been processed in exactly this content and changed again:\n%s", where, n, diffLines(b[2:], got))}
			}
		} else if _, wasHealed := w.healthy[base]; wasHealed && !ok {
			w.Probes.Add("first_processed_"+ev.Op, 1)
		}
		if !bytes.Contains(content, []byte("@tag")) && a != b {
			return &detsim.Violation{Class: "not-idempotent", Sub: "unannotated-changed", Detail: fmt.Sprintf("%s: %q has no @tag annotation and was modified:\n%s", where, n, diffLines(b[2:], got))}
		}
		if a != b {
			w.Probes.Add("file_modified_by_tool", 1)
		}
		w.processed[base] = sha256.Sum256([]byte(got))
	}
	return nil
}

var annRe = regexp.MustCompile(`^(.*//.*@tag )((?:[^\s:"]+:"[^"]*" *)+)$`)
var annItemRe = regexp.MustCompile(`[^\s:"]+:"[^"]*"`)

// EditAnnotations edits about half of the line-comment annotations of a file (at least one): a value gets a letter more, an
// item is added, the last item is dropped, or the first two items change places. It returns the new text and the number of
// annotations edited.
func EditAnnotations(content string, arg int) (string, int) {
	lines := strings.Split(content, "\n")
	var idx []int
	for i, l := range lines {
		if annRe.MatchString(strings.TrimRight(l, "\r")) {
			idx = append(idx, i)
		}
	}
	if len(idx) == 0 {
		return content, 0
	}
	r := detsim.NewRand(uint64(arg)*0x9E3779B97F4A7C15 + 1)
	n := 0
	for k, i := range idx {
		if !r.Chance(1, 2) && !(n == 0 && k == len(idx)-1) {
			continue
		}
		cr := ""
		l := lines[i]
		if strings.HasSuffix(l, "\r") {
			l, cr = l[:len(l)-1], "\r"
		}
		m := annRe.FindStringSubmatch(l)
		items := annItemRe.FindAllString(m[2], -1)
		switch op := r.Intn(4); {
		case op == 0 || len(items) < 2 && op >= 2:
			it := items[r.Intn(len(items))]
			j := -1
			for x := range items {
				if items[x] == it {
					j = x
				}
			}
			items[j] = it[:len(it)-1] + "e\""
		case op == 1:
			items = append(items, fmt.Sprintf("added%d:\"%d\"", r.Intn(3), r.Intn(100)))
		case op == 2:
			items = items[:len(items)-1]
		default:
			items[0], items[1] = items[1], items[0]
		}
		lines[i] = m[1] + strings.Join(items, " ") + cr
		n++
	}
	return strings.Join(lines, "\n"), n
}

func sortedKeys(m map[string]bool) []string {
	l := make([]string, 0, len(m))
	for k := range m {
		l = append(l, k)
	}
	sort.Strings(l)
	return l
}

func faultLabel(e *Entry) string {
	switch {
	case e.Perm != "":
		return "perm_" + e.Perm
	case e.Kind != KGo:
		return e.Kind
	case e.Break != "":
		return "break_" + e.Break
	case e.Shape != "":
		return "shape_" + e.Shape
	}
	return "replace"
}

var numRe = regexp.MustCompile(`[0-9]+`)

func crashSub(stderr string) string {
	i := strings.Index(stderr, "panic:")
	if i < 0 {
		i = strings.Index(stderr, "fatal error:")
	}
	if i < 0 {
		return "signal"
	}
	l := stderr[i:]
	if j := strings.IndexByte(l, '\n'); j >= 0 {
		l = l[:j]
	}
	l = numRe.ReplaceAllString(l, "N")
	if len(l) > 70 {
		l = l[:70]
	}
	return l
}

func clip(s string) string {
	if len(s) > 700 {
		return s[:700] + "...(" + fmt.Sprint(len(s)) + " bytes)"
	}
	return s
}

func diffLines(a, b string) string {
	al, bl := strings.Split(a, "\n"), strings.Split(b, "\n")
	var out []string
	for i := 0; i < len(al) || i < len(bl); i++ {
		var x, y string
		if i < len(al) {
			x = al[i]
		}
		if i < len(bl) {
			y = bl[i]
		}
		if x != y {
			out = append(out, fmt.Sprintf("  line %d\n   - %s\n   + %s", i+1, x, y))
			if len(out) >= 4 {
				break
			}
		}
	}
	return strings.Join(out, "\n")
}
