package e3

import (
	"fmt"

	"verifsim/detsim"
)

// names sort as ReadDir/Glob return them, so the name decides the position.
func nameAt(pos string, i int) string {
	// unusual but legal file names for some indices: blanks, printf verbs, CJK, glob meta characters
	deco := []string{"", "", "", " sp ace", "_%d%s%v", "_中文", "_[b]{c}"}[i%7]
	switch pos {
	case "first":
		return fmt.Sprintf("a%02d_first%s.pb.go", i, deco)
	case "last":
		return fmt.Sprintf("z%02d_last%s.pb.go", i, deco)
	}
	return fmt.Sprintf("m%02d_mid%s.pb.go", i, deco)
}

func healthyEntry(r *detsim.Rand, name string, annotated bool) Entry {
	return Entry{Name: name, Kind: KGo, File: GenHealthy(r, "pb", annotated)}
}

// AllFaultKinds lists F12: every way one entry of the directory can be "bad".
func AllFaultKinds() []string {
	var l []string
	for _, b := range BreakKinds {
		l = append(l, "break:"+b)
	}
	for _, u := range UnexpectedKinds {
		l = append(l, "shape:"+u)
	}
	l = append(l, "text-file", "bak-file", "dir", "dir-named-go", "dangling-symlink-go", "dangling-symlink", "symlink-to-dir-go", "symlink-to-go-file", "symlink-aliases-x8", "unannotated")
	// files that sit next to a healthy Go file under the names editors, backup and "atomic write" schemes use
	for _, sfx := range SiblingSuffixes {
		l = append(l, "sibling:"+sfx)
	}
	if CanDropPrivileges() {
		// F13: I/O errors the real kernel produces once the tool runs as an unprivileged user
		l = append(l, "perm:ro", "perm:noread")
	}
	return l
}

var SiblingSuffixes = []string{".tmp", ".bak", "~", ".orig", ".new", ".swp"}

// siblingOf turns a "sibling:<sfx>" entry into a neighbour of one of the healthy Go files already in the plan.
func siblingOf(r *detsim.Rand, p *Plan, e Entry, kind string) Entry {
	if kind == "symlink-to-go-file" || kind == "symlink-aliases-x8" {
		for i := range p.Entries {
			if p.Entries[i].Kind == KGo && p.Entries[i].Break == "" && p.Entries[i].Perm == "" {
				e.Raw = "file:" + p.Entries[i].Name
				if kind == "symlink-aliases-x8" {
					e.Shape = kind
				}
				return e
			}
		}
		e.Raw = "" // no healthy neighbour: a dangling link
		return e
	}
	if len(kind) <= 8 || kind[:8] != "sibling:" {
		return e
	}
	var hs []string
	for i := range p.Entries {
		if p.Entries[i].Kind == KGo && p.Entries[i].Break == "" && p.Entries[i].Perm == "" {
			hs = append(hs, p.Entries[i].Name)
		}
	}
	if len(hs) == 0 {
		return e
	}
	e.Name = hs[r.Intn(len(hs))] + kind[len("sibling:"):]
	return e
}

// companions returns the extra entries a bad entry needs around it: the non-Go sibling a //line directive names
// (short text in one variant, a long annotated Go-like text in the other).
func companions(r *detsim.Rand, e *Entry) []Entry {
	if e.Kind == KSymlink && e.Shape == "symlink-aliases-x8" && len(e.Raw) > 5 {
		// seven more names for the same file: a tool that handles the entries of a directory at the same time meets itself
		var l []Entry
		for i := 1; i < 8; i++ {
			l = append(l, Entry{Name: fmt.Sprintf("%s.alias%d.go", e.Name[:len(e.Name)-3], i), Kind: KSymlink, Raw: e.Raw})
		}
		return l
	}
	if e.File == nil || e.File.LineDir == "" {
		return nil
	}
	name := e.Name + ".tmpl"
	e.File.LineDir = name
	if r.Chance(1, 2) {
		return []Entry{{Name: name, Kind: KRaw, Raw: "short template\n"}}
	}
	return []Entry{{Name: name, Kind: KText, File: GenHealthy(r, "pb", true)}}
}

// faultEntry builds the bad entry of a kind at a position.
func faultEntry(r *detsim.Rand, kind, pos string, i int) Entry {
	name := nameAt(pos, i)
	stem := name[:len(name)-len(".pb.go")]
	switch {
	case len(kind) > 6 && kind[:6] == "break:":
		// one time in four the broken file carries no annotation at all: a tool that looks for "@tag" before it parses must
		// leave such a file alone just the same (seeded C19t skipped the parser for files without "@tag" and reformatted them)
		return Entry{Name: name, Kind: KGo, File: GenHealthy(r, "pb", !r.Chance(1, 4)), Break: kind[6:], Arg: r.Intn(1 << 16)}
	case len(kind) > 5 && kind[:5] == "perm:":
		return Entry{Name: name, Kind: KGo, File: GenHealthy(r, "pb", true), Perm: kind[5:]}
	case len(kind) > 6 && kind[:6] == "shape:":
		return Entry{Name: name, Kind: KGo, File: GenUnexpected(r, "pb", kind[6:]), Shape: kind[6:]}
	}
	if len(kind) > 8 && kind[:8] == "sibling:" {
		// the caller renames it after a healthy neighbour (siblingOf)
		return Entry{Name: name + kind[8:], Kind: KText, File: GenHealthy(r, "pb", true), Shape: kind}
	}
	switch kind {
	case "text-file":
		return Entry{Name: stem + ".txt", Kind: KText, File: GenHealthy(r, "pb", true)}
	case "bak-file":
		return Entry{Name: name + ".bak", Kind: KText, File: GenHealthy(r, "pb", true)}
	case "dir":
		return Entry{Name: stem + "_sub", Kind: KDir}
	case "dir-named-go":
		return Entry{Name: name, Kind: KDir}
	case "dangling-symlink-go":
		return Entry{Name: name, Kind: KSymlink}
	case "dangling-symlink":
		return Entry{Name: stem + ".lnk", Kind: KSymlink}
	case "symlink-to-dir-go":
		return Entry{Name: name, Kind: KSymlink, Raw: "dir"}
	case "symlink-to-go-file", "symlink-aliases-x8":
		return Entry{Name: name, Kind: KSymlink, Raw: "file:"} // the caller points it at a healthy neighbour (siblingOf)
	}
	return Entry{Name: name, Kind: KGo, File: GenHealthy(r, "pb", false)}
}

// SystematicC19 enumerates fault kind x position x mode (x a second fault).
func SystematicC19(seed uint64) []*Plan {
	var plans []*Plan
	kinds := AllFaultKinds()
	poss := []string{"first", "middle", "last"}
	modes := []string{EvRunD, EvRunP, EvRunF}
	n := 0
	for ki, k := range kinds {
		for _, pos := range poss {
			for _, mode := range modes {
				for two := 0; two < 2; two++ {
					if two == 1 && mode == EvRunF {
						continue
					}
					// the two-fault part pairs each kind with one other kind (rotating), not all pairs
					n++
					r := detsim.NewRand(detsim.Mix(seed, "C19/systematic", uint64(n)))
					p := &Plan{Prop: "C19", Case: fmt.Sprintf("%s|%s|%s|faults=%d", k, pos, mode, two+1)}
					// 2..4 healthy annotated neighbours around the position
					nh := 2 + r.Intn(3)
					for i := 0; i < nh; i++ {
						hp := []string{"first", "middle", "last"}[i%3]
						if hp == pos {
							hp = []string{"middle", "last", "first"}[i%3]
						}
						p.Entries = append(p.Entries, healthyEntry(r, nameAt(hp, 10+i), true))
					}
					bad := faultEntry(r, k, pos, 0)
					bad = siblingOf(r, p, bad, k)
					comp := companions(r, &bad)
					p.Entries = append(p.Entries, bad)
					p.Entries = append(p.Entries, comp...)
					if two == 1 {
						k2 := kinds[(ki+1+n%5)%len(kinds)]
						pos2 := poss[(n+1)%3]
						b2 := faultEntry(r, k2, pos2, 1)
						b2 = siblingOf(r, p, b2, k2)
						comp2 := companions(r, &b2)
						p.Entries = append(p.Entries, b2)
						p.Entries = append(p.Entries, comp2...)
						p.Case += "+" + k2 + "@" + pos2
					}
					switch mode {
					case EvRunD:
						p.Events = []Event{{Op: EvRunD}}
					case EvRunP:
						p.Events = []Event{{Op: EvRunP, Target: "*.go"}}
					case EvRunF:
						p.Events = []Event{{Op: EvRunF, Target: bad.Name}, {Op: EvRunD}}
					}
					for i := range p.Events {
						genEnv(r, &p.Events[i])
					}
					if n%4 == 0 {
						setTimes(r, p)
					}
					plans = append(plans, p)
				}
			}
		}
	}
	plans = append(plans, bulkPlans(seed)...)
	return plans
}

// bulkPlans: directories whose TOTAL size or entry count is far beyond what the seeded directories reach - 20 and 36 files
// of half a megabyte to a megabyte each (18 and 36 MB per invocation, crossing 1, 2, 4, 8, 16 and 32 MiB of source
// handled by one process) and 1100 small files - each with a file that does not parse near the front. Whatever the tool
// keeps per invocation (a shared token.FileSet, a buffer, a table of open files) grows with the directory (seeded C19u
// replaced a shared FileSet once it held 8 MiB, in the middle of a file).
func bulkPlans(seed uint64) []*Plan {
	var plans []*Plan
	for bi, cfg := range []struct {
		n, size int
		mode    string
	}{{36, 1 << 20, EvRunD}, {20, 1 << 19, EvRunP}} {
		r := detsim.NewRand(detsim.Mix(seed, "C19/bulk", uint64(bi)))
		p := &Plan{Prop: "C19", Case: fmt.Sprintf("bulk-bytes|%dx%d|%s", cfg.n, cfg.size, cfg.mode)}
		for i := 0; i < cfg.n; i++ {
			f := GenHealthy(r, "pb", true)
			f.LongLine = cfg.size - cfg.size/16 + r.Intn(cfg.size/8)
			e := Entry{Name: fmt.Sprintf("b%03d_bulk.pb.go", i), Kind: KGo, File: f}
			if i == 1 {
				e.Break, e.Arg = "stray-token", r.Intn(1<<16)
			}
			p.Entries = append(p.Entries, e)
		}
		if cfg.mode == EvRunD {
			p.Events = []Event{{Op: EvRunD}}
		} else {
			p.Events = []Event{{Op: EvRunP, Target: "*.go"}}
		}
		plans = append(plans, p)
	}
	r := detsim.NewRand(detsim.Mix(seed, "C19/bulk", 99))
	p := &Plan{Prop: "C19", Case: "bulk-count|1100 files|run-d"}
	var kinds []*GoFile
	for i := 0; i < 6; i++ {
		kinds = append(kinds, GenHealthy(r, "pb", i != 5))
	}
	for i := 0; i < 1100; i++ {
		e := Entry{Name: fmt.Sprintf("c%04d_many.pb.go", i), Kind: KGo, File: kinds[i%len(kinds)]}
		switch i {
		case 2, 600, 1030:
			e.Break, e.Arg = BreakKinds[i%len(BreakKinds)], i
		case 3:
			e = Entry{Name: "c0003_many.txt", Kind: KText, File: kinds[0]}
		}
		p.Entries = append(p.Entries, e)
	}
	p.Events = []Event{{Op: EvRunD}}
	plans = append(plans, p)
	return plans
}

var globs = []string{"*.go", "*.pb.go", "a*.go", "[m-z]*.go", "*", "*.g?", "z*"}

func genRun(r *detsim.Rand, names []string) Event {
	ev := genRunPlain(r, names)
	genEnv(r, &ev)
	return ev
}

var zones = []string{"UTC", "Etc/GMT+12", "Etc/GMT-14", "Asia/Shanghai", "America/New_York", "Europe/Lisbon"}

// genEnv draws the environment of one invocation (the last draws of the event: paths and targets are what they were before).
func genEnv(r *detsim.Rand, ev *Event) {
	switch r.Weighted([]int{8, 1, 1}) {
	case 1:
		ev.Stdio = "pty"
	case 2:
		ev.Stdio = "null"
	}
	if r.Chance(1, 4) {
		ev.TZ = zones[r.Intn(len(zones))]
	}
}

// setTimes puts the invocations of a history on a calendar: a start near an interesting instant, then steps of seconds,
// hours, days, months or years between invocations.
func setTimes(r *detsim.Rand, p *Plan) {
	starts := []int64{1772366400, 1798761590, 1709251195, 2147483640, 1743292790, 946684790} // 2026-03-01 12:00, 2026-12-31 23:59:50, 2024-02-29 23:59:55, 2038-01-19 03:14:00, 2025-03-30 (a DST night in Europe), 1999-12-31 23:59:50 (UTC)
	t := starts[r.Intn(len(starts))]
	for i := range p.Events {
		switch p.Events[i].Op {
		case EvRunD, EvRunF, EvRunP:
			p.Events[i].At = t
			t += []int64{0, 1, 20, 3600, 86400, 40 * 86400, 400 * 86400}[r.Intn(7)]
		}
	}
}

func genRunPlain(r *detsim.Rand, names []string) Event {
	form := 0
	if r.Chance(1, 3) {
		form = 1 + r.Intn(3) // how the path is written on the command line
	}
	switch r.Weighted([]int{4, 3, 3}) {
	case 0:
		return Event{Op: EvRunD, Form: form}
	case 1:
		return Event{Op: EvRunP, Target: globs[r.Intn(len(globs))], Form: form}
	}
	return Event{Op: EvRunF, Target: names[r.Intn(len(names))], Form: form}
}

// GenC19 draws a random directory with a random subset of bad entries and 1..3 invocations.
func GenC19(r *detsim.Rand) *Plan {
	p := &Plan{Prop: "C19"}
	n := 2 + r.Intn(7)
	kinds := AllFaultKinds()
	poss := []string{"first", "middle", "last"}
	var names []string
	for i := 0; i < n; i++ {
		pos := poss[r.Intn(3)]
		var e Entry
		if r.Chance(2, 5) {
			k := kinds[r.Intn(len(kinds))]
			e = siblingOf(r, p, faultEntry(r, k, pos, i), k)
			for _, c := range companions(r, &e) {
				p.Entries = append(p.Entries, c)
				names = append(names, c.Name)
			}
		} else {
			e = healthyEntry(r, nameAt(pos, i), r.Chance(4, 5))
		}
		p.Entries = append(p.Entries, e)
		names = append(names, e.Name)
	}
	k := 1 + r.Intn(3)
	for i := 0; i < k; i++ {
		p.Events = append(p.Events, genRun(r, names))
	}
	if r.Chance(1, 4) {
		setTimes(r, p)
	}
	return p
}

// GenC07 draws a history of invocations with fault and heal events between them.
func GenC07(r *detsim.Rand) *Plan {
	p := &Plan{Prop: "C07"}
	n := 1 + r.Intn(6)
	poss := []string{"first", "middle", "last"}
	var names []string
	for i := 0; i < n; i++ {
		e := healthyEntry(r, nameAt(poss[r.Intn(3)], i), r.Chance(5, 6))
		p.Entries = append(p.Entries, e)
		names = append(names, e.Name)
	}
	if r.Chance(1, 3) {
		// one of the unusual valid shapes is there from the start (idempotence is promised for every Go file, not only for the usual ones)
		e := faultEntry(r, "shape:"+UnexpectedKinds[r.Intn(len(UnexpectedKinds))], poss[r.Intn(3)], n)
		for _, c := range companions(r, &e) {
			p.Entries = append(p.Entries, c)
		}
		p.Entries = append(p.Entries, e)
		names = append(names, e.Name)
	}
	faultFree := r.Chance(2, 5)
	kinds := AllFaultKinds()
	nev := 2 + r.Intn(5)
	for i := 0; i < nev; i++ {
		if i > 0 && r.Chance(1, 5) {
			// between two runs the user edits some annotations of a file (not a fault: fault-free histories have such events too)
			p.Events = append(p.Events, Event{Op: EvEdit, Target: names[r.Intn(len(names))], Arg: r.Intn(1 << 20)})
			continue
		}
		if !faultFree && r.Chance(1, 3) {
			if r.Chance(1, 2) {
				// break (or otherwise replace) an existing file
				tgt := r.Intn(len(p.Entries))
				name := p.Entries[tgt].Name
				var e Entry
				if r.Chance(2, 3) {
					e = Entry{Name: name, Kind: KGo, File: GenHealthy(r, "pb", true), Break: BreakKinds[r.Intn(len(BreakKinds))], Arg: r.Intn(1 << 16)}
				} else {
					e = faultEntry(r, kinds[r.Intn(len(kinds))], "middle", 20+i)
					names = append(names, e.Name)
				}
				p.Events = append(p.Events, Event{Op: EvFault, Entry: &e})
			} else {
				p.Events = append(p.Events, Event{Op: EvHeal, Target: names[r.Intn(len(names))]})
			}
			continue
		}
		p.Events = append(p.Events, genRun(r, names))
	}
	// convergence once faults stop: heal everything that was broken, one -d run, then k further runs
	if !faultFree {
		for _, nm := range names {
			if r.Chance(1, 2) {
				p.Events = append(p.Events, Event{Op: EvHeal, Target: nm})
			}
		}
	}
	p.Events = append(p.Events, Event{Op: EvRunD})
	k := 1 + r.Intn(3)
	for i := 0; i < k; i++ {
		p.Events = append(p.Events, genRun(r, names))
	}
	if r.Chance(1, 3) {
		setTimes(r, p)
	}
	return p
}
