// Package e3 is the injector directory simulator: the real CLI built from the
// working tree, run over generated directories of files with per-file faults,
// fault/heal events between invocations, and differential oracles (a file's
// "solo" result = what the tool makes of it alone in an empty directory).
package e3

import (
	"fmt"
	"strings"

	"verifsim/detsim"
)

type KV struct {
	K string `json:"k"`
	V string `json:"v"`
}

type Field struct {
	Names     string `json:"names"` // "Name" or "A, B" or "" (embedded)
	Type      string `json:"type"`
	Tags      []KV   `json:"tags,omitempty"`   // existing tag literal (raw string literal)
	NoTag     bool   `json:"no_tag,omitempty"` // no tag literal at all
	Interp    bool   `json:"interp,omitempty"` // tag written as an interpreted string "..."
	Doc       string `json:"doc,omitempty"`    // leading comment line
	Trailing  string `json:"trailing,omitempty"`
	Inject    []KV   `json:"inject,omitempty"`     // keys after "@tag "
	InjectRaw string `json:"inject_raw,omitempty"` // raw text after "@tag" instead of Inject (malformed annotation)
	Mention   bool   `json:"mention,omitempty"`    // the comment merely mentions @tag inside prose
	Block     bool   `json:"block,omitempty"`      // trailing /* ... */ comment
	Block2    string `json:"block2,omitempty"`     // an additional /* ... */ comment on the same line, before the trailing comment
	TagSep    string `json:"tag_sep,omitempty"`    // what separates the items of the existing tag literal instead of one blank ("  ", "\t"), and whether blanks pad the literal inside the back-quotes (a leading "^")
	RawTag    string `json:"raw_tag,omitempty"`    // literal text between the back-quotes instead of Tags (a tag that is not in key:"value" form)
	EmptyTag  bool   `json:"empty_tag,omitempty"`  // the literal is the empty raw string ``
}

type Struct struct {
	Name      string  `json:"name"`
	Fields    []Field `json:"fields"`
	Protoimpl bool    `json:"protoimpl,omitempty"`
	Generic   bool    `json:"generic,omitempty"`
}

type GoFile struct {
	Pkg      string   `json:"pkg"`
	Header   bool     `json:"header,omitempty"`
	Structs  []Struct `json:"structs"`
	Grouped  bool     `json:"grouped,omitempty"` // all types in one "type ( ... )" declaration
	Local    bool     `json:"local,omitempty"`   // one more annotated type declared inside a function
	Methods  bool     `json:"methods,omitempty"`
	Alias    bool     `json:"alias,omitempty"`          // a non-struct type and a const block too
	LineDir  string   `json:"line_directive,omitempty"` // a "//line <name>:<n>" directive right after the package clause (positions reported for the file are then attributed to <name>)
	Empty    string   `json:"empty_groups,omitempty"`   // empty parenthesised declaration groups after the package clause: any of "import", "const", "type", "var", comma separated
	CRLF     bool     `json:"crlf,omitempty"`           // Windows line endings
	BOM      bool     `json:"bom,omitempty"`            // the file starts with a UTF-8 byte order mark (go/parser accepts one)
	NoEOL    bool     `json:"no_final_newline,omitempty"`
	LongLine int      `json:"long_line,omitempty"` // > 0: a one-line string constant of that many bytes in front of the types (line-oriented readers have limits, bufio.Scanner's is 64 KiB)
}

func renderTags(t []KV) string {
	var p []string
	for _, kv := range t {
		p = append(p, kv.K+`:"`+kv.V+`"`)
	}
	return strings.Join(p, " ")
}

func (f Field) render() string {
	var b strings.Builder
	if f.Doc != "" {
		b.WriteString("\t// " + f.Doc + "\n")
	}
	b.WriteString("\t")
	if f.Names != "" {
		b.WriteString(f.Names + " ")
	}
	b.WriteString(f.Type)
	if !f.NoTag {
		if f.EmptyTag {
			b.WriteString(" ``")
		} else if f.RawTag != "" {
			b.WriteString(" `" + f.RawTag + "`")
		} else if f.Interp {
			b.WriteString(" " + fmt.Sprintf("%q", renderTags(f.Tags)))
		} else if f.TagSep != "" {
			sep, pad := f.TagSep, ""
			if strings.HasPrefix(sep, "^") {
				sep, pad = sep[1:], " "
			}
			if sep == "" {
				sep = " "
			}
			b.WriteString(" `" + pad + strings.ReplaceAll(renderTags(f.Tags), "\" ", "\""+sep) + pad + "`")
		} else {
			b.WriteString(" `" + renderTags(f.Tags) + "`")
		}
	}
	c := f.Trailing
	switch {
	case f.InjectRaw != "":
		c += " @tag" + f.InjectRaw
	case len(f.Inject) > 0:
		c += " @tag " + renderTags(f.Inject)
	case f.Mention:
		c += " see the @tag documentation"
	}
	c = strings.TrimSpace(c)
	if f.Block2 != "" {
		b.WriteString(" /* " + f.Block2 + " */")
	}
	if c != "" {
		if f.Block {
			b.WriteString(" /* " + c + " */")
		} else {
			b.WriteString(" // " + c)
		}
	}
	b.WriteString("\n")
	return b.String()
}

func (s Struct) render(indent string, grouped bool) string {
	var b strings.Builder
	name := s.Name
	if s.Generic {
		name += "[T any]"
	}
	if grouped {
		b.WriteString(indent + name + " struct {\n")
	} else {
		b.WriteString(indent + "type " + name + " struct {\n")
	}
	if s.Protoimpl {
		b.WriteString(indent + "\tstate         protoimpl.MessageState\n" + indent + "\tsizeCache     protoimpl.SizeCache\n" + indent + "\tunknownFields protoimpl.UnknownFields\n\n")
	}
	for _, f := range s.Fields {
		for _, l := range strings.SplitAfter(f.render(), "\n") {
			if l != "" {
				b.WriteString(indent + l)
			}
		}
	}
	b.WriteString(indent + "}\n")
	return b.String()
}

func (g *GoFile) Render() string {
	var b strings.Builder
	if g.Header {
		b.WriteString("// Code generated by protoc-gen-go. DO NOT EDIT.\n// versions:\n// \tprotoc-gen-go v1.28.1\n// source: " + g.Pkg + ".proto\n\n")
	}
	b.WriteString("package " + g.Pkg + "\n\n")
	if g.Header {
		b.WriteString("import (\n\tprotoreflect \"google.golang.org/protobuf/reflect/protoreflect\"\n\tprotoimpl \"google.golang.org/protobuf/runtime/protoimpl\"\n)\n\n")
	}
	if g.LineDir != "" {
		b.WriteString("//line " + g.LineDir + ":7\n")
	}
	for _, kw := range strings.Split(g.Empty, ",") {
		if kw != "" {
			b.WriteString(kw + " ()\n\n")
		}
	}
	if g.LongLine > 0 {
		b.WriteString("const file_rawDesc = \"" + strings.Repeat("\\x0a\\x05", g.LongLine/8) + "\" // @tag is not for constants\n\n")
	}
	if g.Alias {
		b.WriteString("type Kind int32\n\nconst (\n\tKind_A Kind = 0 // 第一种 @tag is not for constants\n\tKind_B Kind = 1\n)\n\n")
	}
	if g.Grouped {
		b.WriteString("type (\n")
		for _, s := range g.Structs {
			b.WriteString(s.render("\t", true))
		}
		b.WriteString(")\n\n")
	} else {
		for _, s := range g.Structs {
			b.WriteString("// " + s.Name + " 消息\n")
			b.WriteString(s.render("", false))
			b.WriteString("\n")
			if g.Methods && !s.Generic {
				b.WriteString("func (x *" + s.Name + ") Reset() {\n\t*x = " + s.Name + "{}\n}\n\nfunc (x *" + s.Name + ") String() string {\n\treturn \"" + s.Name + "\" // @tag not a field\n}\n\n")
			}
		}
	}
	if g.Local {
		b.WriteString("func local() interface{} {\n\ttype inner struct {\n\t\tID int64 `json:\"id\"` // 内部 @tag valid:\"required\"\n\t}\n\treturn inner{}\n}\n")
	}
	out := b.String()
	if g.CRLF {
		out = strings.ReplaceAll(out, "\n", "\r\n")
	}
	if g.NoEOL {
		out = strings.TrimRight(out, "\r\n")
	}
	if g.BOM {
		out = "\xef\xbb\xbf" + out
	}
	return out
}

// HasAnnotation reports whether some field carries an @tag comment that the tool acts on.
func (g *GoFile) Annotated() bool {
	for _, s := range g.Structs {
		for _, f := range s.Fields {
			if len(f.Inject) > 0 || f.InjectRaw != "" || f.Mention {
				return true
			}
		}
	}
	return false
}

// Overrides reports whether some injected key overrides an existing one.
func (g *GoFile) Overrides() (override, add bool) {
	for _, s := range g.Structs {
		for _, f := range s.Fields {
			for _, in := range f.Inject {
				found := false
				for _, t := range f.Tags {
					if t.K == in.K {
						found = true
					}
				}
				if found {
					override = true
				} else {
					add = true
				}
			}
		}
	}
	return
}

var fieldNames = []string{"Name", "Age", "Phone", "Email", "OrderNo", "Amount", "Status", "CreatedAt", "Items", "Extra"}
var fieldTypes = []string{"string", "int32", "int64", "float64", "bool", "[]string", "*Inner", "map[string]string", "[]*Inner"}
var docs = []string{"", "", "名字", "the amount, in cents", "状态: 1 正常 2 禁用"}
var trailings = []string{"", "", "必填", "用户名 (required)", "see docs", "金额"}
var injectVals = []string{"dir=C:\\tmp\\", "\\", "default=$100", "tpl=${name}x$$", "required|cost $5", "required|must be filled in", "required|用户名称不能为空请重新填写", "required|姓名必填,to=1~3", "le=64|说明文字过长，请缩短后重新提交，谢谢配合", "required", "required,to=1~10", "phone|手机号不对", "exist", "in=(1/2/3)", "le=30", "either=1", "omitempty", "-", "re='^a,b$'"}

func genField(r *detsim.Rand, i int, annotate bool) Field {
	name := fieldNames[i%len(fieldNames)]
	if i >= len(fieldNames) {
		name += fmt.Sprint(i)
	}
	lower := strings.ToLower(name[:1]) + name[1:]
	f := Field{Names: name, Type: fieldTypes[r.Intn(len(fieldTypes))], Doc: docs[r.Intn(len(docs))]}
	f.Tags = []KV{{"protobuf", fmt.Sprintf("bytes,%d,opt,name=%s,proto3", i+1, lower)}, {"json", lower + ",omitempty"}}
	if r.Chance(1, 6) {
		f.Tags = append(f.Tags, KV{"valid", "required"})
	}
	if r.Chance(1, 8) {
		f.Tags = f.Tags[1:]
	}
	if r.Chance(1, 10) {
		// values an escaping round trip would not leave alone: backslashes (proto2 defaults), a tab, an ideographic space, percent signs
		f.Tags = append(f.Tags, []KV{{"protobuf_def", "bytes,9,opt,name=dir,def=C:\\\\tmp\\\\x"}, {"comment", "全角\u3000空格"}, {"fmt", "100%d of %s"}, {"path", "a\\b\tc"},
			// ... and dollar signs: text a regexp replacement TEMPLATE would expand ($$ -> $, $name -> nothing) every time it passes through one
			{"doc", "cost $$5"}, {"tpl", "${name}x$1y"}, {"price", "$100 or $$"},
			// ... and a value whose LAST character is a backslash (a Windows directory, a separator): is the quote after it the end?
			{"default", "C:\\data\\"}, {"sep", "\\"}}[r.Intn(9)])
	}
	if r.Chance(1, 12) {
		// a literal that is not in the canonical one-blank form (hand-edited, another generator), or with an item whose value is empty:
		// what the tool writes on the first run must already be what it writes on the second (seeded C07s spliced into the old bytes)
		f.TagSep = []string{"  ", "\t", "^", "^  ", "   ", "\f", " \v"}[r.Intn(7)]
		if r.Chance(1, 3) {
			f.Tags = append(f.Tags, KV{"bson", ""})
		}
	}
	if annotate {
		f.Trailing = trailings[r.Intn(len(trailings))]
		n := 1 + r.Intn(3)
		used := map[string]bool{}
		for k := 0; k < n; k++ {
			key := []string{"valid", "json", "form", "gorm", "protobuf", "xml", "x-order", "form.name", "名字"}[r.Weighted([]int{12, 6, 4, 2, 2, 2, 1, 1, 1})]
			if used[key] {
				continue
			}
			used[key] = true
			val := injectVals[r.Intn(len(injectVals))]
			switch key {
			case "json", "form", "xml":
				val = lower
			case "gorm":
				val = "column:" + lower + ";type:varchar(64)"
			case "protobuf":
				val = "bytes,9,opt,name=" + lower
			}
			if r.Chance(1, 6) && (key == "json" || key == "protobuf" || key == "xml" || key == "form") {
				val = "-" // an override that makes the literal SHORTER
			}
			f.Inject = append(f.Inject, KV{key, val})
		}
		// unusual but legal: one comment repeats a key with another value
		if r.Chance(1, 7) {
			d := f.Inject[r.Intn(len(f.Inject))]
			d.V = injectVals[r.Intn(len(injectVals))]
			f.Inject = append(f.Inject, d)
		}
		// the byte-identical multi-key annotation on several fields is common in generated code
		if r.Chance(1, 6) {
			f.Inject = []KV{{"valid", "required"}, {"json", "same_name"}, {"form", "same"}}[:2+r.Intn(2)]
		}
		// legal Go (only vet objects): the existing literal carries one key TWICE - left behind by an older, appending version of
		// some tool, or written by hand - and the second occurrence is exactly what the comment asks for, next to an item that
		// is not there yet (seeded C07t dropped "already present" items before merging and wrote every key once)
		if r.Chance(1, 10) {
			d := f.Inject[r.Intn(len(f.Inject))]
			f.Tags = append(f.Tags, KV{d.K, injectVals[r.Intn(len(injectVals))]}, d)
			if len(f.Inject) == 1 {
				f.Inject = append(f.Inject, KV{"yaml", lower})
			}
		}
	}
	return f
}

func genStruct(r *detsim.Rand, name string, annotateSome bool) Struct {
	s := Struct{Name: name, Protoimpl: r.Chance(2, 3)}
	nf := 1 + r.Intn(6)
	if r.Chance(1, 40) {
		nf = 60 + r.Intn(120) // a very large message now and then
	}
	any := false
	for i := 0; i < nf; i++ {
		a := annotateSome && r.Chance(1, 2)
		any = any || a
		s.Fields = append(s.Fields, genField(r, i, a))
	}
	if annotateSome && !any {
		s.Fields[len(s.Fields)-1] = genField(r, len(s.Fields)-1, true)
	}
	return s
}

// GenHealthy draws a file in the shape protoc-gen-go emits.
func GenHealthy(r *detsim.Rand, pkg string, annotated bool) *GoFile {
	g := &GoFile{Pkg: pkg, Header: r.Chance(3, 4), Methods: r.Chance(2, 3), Alias: r.Chance(1, 4)}
	ns := 1 + r.Intn(4)
	for i := 0; i < ns; i++ {
		g.Structs = append(g.Structs, genStruct(r, fmt.Sprintf("Msg%d", i+1), annotated && (i == 0 || r.Chance(2, 3))))
	}
	return g
}

// OddTagTexts: what may follow "@tag" in a comment without being a list of well-formed k:"v" items.
var OddTagTexts = []string{
	" default:\"C:\\tmp\\",                // an unterminated value whose last character is a backslash
	" valid:\"required\" dir:\"C:\\tmp\\", // the same after a well-formed item
	" valid:\"abc",                        // an unterminated value
	" valid:\"required\"\fform:\"id\"",    // a form feed between two items
	" valid:\"required\" \vform:\"id\"",   // a vertical tab at the start of a word
	" \x01valid:\"required\"",             // a control character in front of the first item
	" valid:\"required\"\x1b[0m",          // an escape sequence after the last item
	" :\"x\" valid:\"required\"",          // a value without a key
	" valid: \"required\"",                // a blank after the colon
	" \"json\" valid",                     // a quoted word, a bare word
	" a\\",                                // a bare word ending in a backslash
	" valid:\"a\\\"b\" json:\"x\"",        // an escaped quote inside a value
	" valid:\"required\" trailing\\",      // a well-formed item, then a word ending in a backslash
	" valid:\"\" json:\"\"",               // empty values only
	" valid:\"required\"\tjson:\"n\"\t",   // tabs between and after the items
	" x-y:\"1\" a.b:\"2\" :\"\" \"",       // keys with - and ., an empty pair, a lone quote
}

// Unexpected valid-Go shapes (C19): the tool must not crash on them.
var UnexpectedKinds = []string{
	"no-tag-literal",             // a field with an @tag comment but no tag literal
	"mention-only",               // a comment that merely mentions @tag, on a field without a tag literal
	"mention-with-tag",           // a comment that merely mentions @tag, on a field that has a tag literal
	"tag-without-kv",             // "@tag" followed by text that contains no k:"v"
	"bare-tag-eol",               // "@tag" at the very end of the comment
	"grouped-types",              // type ( A struct{...}; B struct{...} )
	"local-type",                 // an annotated type declared inside a function
	"embedded-field",             // embedded field with an annotation
	"embedded-no-tag",            // embedded field, annotation, no tag literal
	"multi-name-field",           // A, B string `..` // @tag ...
	"generic-struct",             // type G[T any] struct
	"interpreted-tag",            // tag literal written as "..." instead of `...`
	"block-comment",              // trailing /* @tag ... */
	"empty-struct",               // struct without fields, annotated neighbour
	"anonymous-struct-field",     // field whose type is an inline struct with its own annotated field
	"empty-import-group",         // import () before the types
	"empty-type-group",           // type () before the types
	"empty-var-const-groups",     // const () and var ()
	"crlf-line-endings",          // the whole file uses \r\n
	"doc-comment-tag-no-literal", // an @tag (or a mere mention of one) in the comment line ABOVE a field that has no tag literal
	"doc-comment-tag",            // the annotation sits in the leading (doc) comment of a field, not the trailing one
	"two-tag-comments",           // a block comment and a line comment on one field, each with its own @tag
	"two-tag-comments-junk",      // the same on a field whose existing tag literal is long and not in key:"value" form, as the last field of the file
	"junk-tag-literal",           // one annotation on a field whose existing tag literal is not in key:"value" form
	"line-directive",             // a //line directive naming an existing non-Go sibling, before the annotated fields
	"odd-tag-text",               // @tag followed by text a hand-written tag scanner may trip over: unterminated values, a trailing backslash, control characters between items, escaped quotes, stray colons and quotes
	"utf8-bom",                   // a byte order mark in front of the package clause (every offset is 3 bytes further than the characters suggest)
	"no-final-newline",           // the file ends right after the last closing brace
	"very-long-line",             // a 70..200 KB one-line constant in front of the annotated types
	"cr-inside-raw-tag",          // a lone carriage return inside the back-quoted tag literal (the scanner drops it from the literal's value: the AST's end offset is one byte short)
	"doc-and-trailing-tags",      // one field annotated twice: in the comment line above it and in its trailing comment (seeded C07n read both and made two overlapping areas)
	"nested-struct-both-levels",  // a field of anonymous struct type with its own tag and annotation, annotated inner fields, annotated siblings after it, at the end of the file
	"literal-comment-matrix",     // one struct with a field for every pair (kind of existing literal) x (kind of @tag comment): 8 x 9 fields
	"literal-comment-pair",       // one such pair, drawn
	"many-inject-items",          // fields whose @tag comment carries 31, 32, 33, 63, 64, 65, 127, 128, 129, 255, 256 and 257 items (seeded C07x kept a 64-bit mask of consumed items)
	"many-literal-items",         // fields whose EXISTING literal carries that many items, a few of them overridden
}

// litKinds x comKinds: what a field's existing tag literal and its @tag comment can each look like (seeded C19x crashed
// only where a literal without any key:"value" item met a comment without any well-formed item).
const nLitKinds, nComKinds = 8, 9

func lcField(name string, lit, com int) Field {
	f := Field{Names: name, Type: "string"}
	switch lit % nLitKinds {
	case 0:
		f.Tags = []KV{{"json", "a,omitempty"}}
	case 1:
		f.NoTag = true
	case 2:
		f.RawTag = "legacy tag text"
	case 3:
		f.EmptyTag = true
	case 4:
		f.RawTag = "-"
	case 5:
		f.Tags = []KV{{"json", ""}}
	case 6:
		f.Tags = []KV{{"名字", "x"}}
	case 7:
		f.Tags, f.Interp = []KV{{"json", "name"}}, true
	}
	switch com % nComKinds {
	case 0:
		f.Inject = []KV{{"valid", "required"}}
	case 1:
		f.Mention, f.Trailing = true, "legacy"
	case 2:
		f.InjectRaw = " required, no quotes here"
	case 3:
		f.InjectRaw, f.Trailing = " ", "todo"
	case 4:
		f.InjectRaw = " json:\"a"
	case 5:
		f.Inject, f.Block = []KV{{"valid", "required"}, {"json", "b"}}, true
	case 6:
		f.Doc = "说明 @tag valid:\"required\""
	case 7:
		f.Doc = "see the @tag documentation"
	case 8:
		f.Inject = []KV{{"json", "-"}, {"xml", "n"}}
	}
	return f
}

var itemCounts = []int{31, 32, 33, 63, 64, 65, 127, 128, 129, 255, 256, 257}

func manyItems(n int, prefix string) []KV {
	l := make([]KV, 0, n)
	for i := 1; i <= n; i++ {
		l = append(l, KV{fmt.Sprintf("%s%d", prefix, i), fmt.Sprintf("v%d", i)})
	}
	return l
}

// GenUnexpected draws a valid Go file that contains the given shape, after at
// least one ordinary annotated field.
func GenUnexpected(r *detsim.Rand, pkg, kind string) *GoFile {
	g := GenHealthy(r, pkg, true)
	s := &g.Structs[len(g.Structs)-1]
	mk := func() Field { return genField(r, len(s.Fields), true) }
	switch kind {
	case "no-tag-literal":
		f := mk()
		f.NoTag = true
		s.Fields = append(s.Fields, f)
	case "mention-only":
		f := genField(r, len(s.Fields), false)
		f.NoTag, f.Mention, f.Trailing = true, true, "legacy"
		s.Fields = append(s.Fields, f)
	case "mention-with-tag":
		f := genField(r, len(s.Fields), false)
		f.Mention, f.Trailing = true, "legacy"
		s.Fields = append(s.Fields, f)
	case "tag-without-kv":
		f := genField(r, len(s.Fields), false)
		f.InjectRaw = " required, no quotes here"
		s.Fields = append(s.Fields, f)
	case "odd-tag-text":
		// two such fields per file, each with an ordinary literal; the texts are legal inside a Go comment
		for k := 0; k < 2; k++ {
			f := genField(r, len(s.Fields), false)
			f.InjectRaw = OddTagTexts[r.Intn(len(OddTagTexts))]
			s.Fields = append(s.Fields, f)
		}
	case "bare-tag-eol":
		f := genField(r, len(s.Fields), false)
		f.InjectRaw = " "
		f.Trailing = "todo"
		s.Fields = append(s.Fields, f)
	case "grouped-types":
		g.Grouped = true
		if len(g.Structs) < 2 {
			g.Structs = append(g.Structs, genStruct(r, "MsgB", true))
		}
	case "local-type":
		g.Local = true
	case "embedded-field":
		f := mk()
		f.Names, f.Type = "", "Inner"
		s.Fields = append(s.Fields, f)
	case "embedded-no-tag":
		f := mk()
		f.Names, f.Type, f.NoTag = "", "*Inner", true
		s.Fields = append(s.Fields, f)
	case "multi-name-field":
		f := mk()
		f.Names = "First, Second"
		s.Fields = append(s.Fields, f)
	case "generic-struct":
		gs := genStruct(r, "Gen", true)
		gs.Generic, gs.Protoimpl = true, false
		g.Structs = append(g.Structs, gs)
	case "interpreted-tag":
		f := mk()
		f.Interp = true
		s.Fields = append(s.Fields, f)
	case "block-comment":
		f := mk()
		f.Block = true
		s.Fields = append(s.Fields, f)
	case "empty-struct":
		g.Structs = append(g.Structs, Struct{Name: "Empty"})
	case "empty-import-group":
		g.Empty, g.Header = "import", false
	case "empty-type-group":
		g.Empty = "type"
	case "empty-var-const-groups":
		g.Empty = "const,var"
	case "crlf-line-endings":
		g.CRLF = true
	case "doc-comment-tag-no-literal":
		f := genField(r, len(s.Fields), false)
		f.NoTag = true
		f.Doc = []string{"说明 @tag valid:\"required\"", "Deprecated: use the @tag valid:\"required\" annotation instead", "@tag x"}[r.Intn(3)]
		s.Fields = append(s.Fields, f)
	case "doc-comment-tag":
		f := genField(r, len(s.Fields), false)
		f.Doc = "说明 @tag valid:\"required\" json:\"doc_only\""
		s.Fields = append(s.Fields, f)
	case "utf8-bom":
		g.BOM = true
	case "no-final-newline":
		g.NoEOL, g.Local = true, false
	case "very-long-line":
		g.LongLine = 70000 + r.Intn(130000)
	case "cr-inside-raw-tag":
		f := mk()
		f.RawTag = "json:\"name,omitempty\"\r xml:\"name\""
		if r.Chance(1, 2) {
			f.RawTag = "\rjson:\"name\"\r\r"
		}
		s.Fields = append(s.Fields, f)
	case "doc-and-trailing-tags":
		f := mk()
		f.Doc = "上一行也有 @tag form:\"above\" valid:\"required|from the line above\""
		s.Fields = append(s.Fields, f)
	case "two-tag-comments":
		f := mk()
		f.Block2 = "@tag form:\"two\" valid:\"required\""
		s.Fields = append(s.Fields, f)
	case "two-tag-comments-junk":
		f := mk()
		f.RawTag = strings.Repeat("legacy-", 8+r.Intn(8)) + "tag"
		f.Block2 = "@tag x"
		f.InjectRaw, f.Inject = " y", nil
		g.Methods, g.Local = false, false
		s.Fields = append(s.Fields, f)
	case "junk-tag-literal":
		f := mk()
		f.RawTag = strings.Repeat("legacy ", 3+r.Intn(12)) + "tag"
		s.Fields = append(s.Fields, f)
	case "line-directive":
		g.LineDir = "PLACEHOLDER" // the plan builder points it at a sibling it adds
	case "nested-struct-both-levels":
		f := mk()
		inner := "\t\tName string `protobuf:\"bytes,1,opt,name=name,proto3\" json:\"name,omitempty\"` // 姓名 @tag protobuf:\"-\" json:\"-\"\n" +
			"\t\tAge int32 `json:\"age\"` // @tag valid:\"to=1~150\"\n"
		f.Type = "struct {\n" + inner + "\t}"
		s.Fields = append(s.Fields, f)
		after := mk()
		after.Tags = []KV{{"json", "r"}}
		after.Inject = []KV{{"json", "-"}}
		s.Fields = append(s.Fields, after)
		g.Methods, g.Local = false, false
	case "literal-comment-matrix":
		m := Struct{Name: "Matrix"}
		for l := 0; l < nLitKinds; l++ {
			for c := 0; c < nComKinds; c++ {
				m.Fields = append(m.Fields, lcField(fmt.Sprintf("L%dC%d", l, c), l, c))
			}
		}
		g.Structs = append(g.Structs, m)
	case "literal-comment-pair":
		s.Fields = append(s.Fields, lcField("Pair", r.Intn(nLitKinds), r.Intn(nComKinds)))
	case "many-inject-items":
		m := Struct{Name: "Many"}
		for _, n := range itemCounts {
			f := Field{Names: fmt.Sprintf("F%d", n), Type: "string", Tags: []KV{{"json", "f"}, {"k2", "old"}}}
			f.Inject = manyItems(n, "k")
			m.Fields = append(m.Fields, f)
		}
		g.Structs = append(g.Structs, m)
	case "many-literal-items":
		m := Struct{Name: "ManyLit"}
		for _, n := range itemCounts {
			f := Field{Names: fmt.Sprintf("F%d", n), Type: "string", Tags: manyItems(n, "k")}
			f.Inject = []KV{{fmt.Sprintf("k%d", n), "last"}, {"k1", "first"}, {"extra", "x"}}
			m.Fields = append(m.Fields, f)
		}
		g.Structs = append(g.Structs, m)
	case "anonymous-struct-field":
		f := genField(r, len(s.Fields), false)
		f.Type = "struct {\n\t\tID int64 `json:\"id\"` // 编号 @tag valid:\"required\"\n\t}"
		f.NoTag = true
		f.Inject = []KV{{"valid", "required"}}
		s.Fields = append(s.Fields, f)
	}
	return g
}

// Parse-breaking faults applied to the rendered text of an annotated file,
// always after at least one annotated field (except "empty").
var BreakKinds = []string{"drop-last-brace", "truncate-tail", "insert-nul", "empty", "stray-token", "unterminated-raw-string", "comment-only", "no-package-clause", "invalid-utf8",
	"crlf-error-at-eol",         // Windows line endings and a syntax error that is reported at the end of a line or at the end of the file
	"line-directive-then-error", // a //line directive (with or without a column, pointing far beyond the file's own length) in front of the first syntax error
}

func ApplyBreak(content, kind string, arg int) string {
	// position after the first "@tag" line
	first := strings.Index(content, "@tag")
	after := 0
	if first >= 0 {
		if nl := strings.IndexByte(content[first:], '\n'); nl >= 0 {
			after = first + nl + 1
		}
	}
	switch kind {
	case "drop-last-brace":
		if i := strings.LastIndex(content, "}"); i >= 0 {
			return content[:i] + content[i+1:]
		}
	case "truncate-tail":
		rest := len(content) - after
		if rest > 2 {
			cut := after + 1 + arg%(rest-1)
			// do not cut exactly at a point that leaves a valid file: cut inside a token
			return content[:cut] + "\nfunc ("
		}
	case "insert-nul":
		pos := after
		if rest := len(content) - after; rest > 0 {
			pos = after + arg%rest
		}
		return content[:pos] + "\x00" + content[pos:]
	case "empty":
		return ""
	case "comment-only":
		// no package clause: fails to parse, and concatenated in front of another file it yields valid Go
		return "// Copyright 2024 The Authors. All rights reserved.\n// Code generated by protoc-gen-go. DO NOT EDIT.\n"
	case "no-package-clause":
		if i := strings.Index(content, "package "); i >= 0 {
			if nl := strings.IndexByte(content[i:], '\n'); nl >= 0 {
				return content[:i] + content[i+nl+1:]
			}
		}
	case "invalid-utf8":
		return content[:after] + "\t// \xff\xfe broken bytes\n" + content[after:]
	case "stray-token":
		return content[:after] + "\t)) oops {{\n" + content[after:]
	case "crlf-error-at-eol":
		c := strings.ReplaceAll(strings.ReplaceAll(content, "\r\n", "\n"), "\n", "\r\n")
		a := strings.Index(c, "@tag")
		if a < 0 {
			a = 0
		}
		if nl := strings.Index(c[a:], "\r\n"); nl >= 0 {
			a += nl + 2
		} else {
			a = len(c)
		}
		switch arg % 4 {
		case 0:
			return c[:a] + "\tBad [\r\n" + c[a:] // expected ']', found newline
		case 1:
			return c[:a] + "\tBad map[string\r\n" // the file ends right after a line end
		case 2:
			return c[:a] + "\tBad map[string" // ... in the middle of a line, no line end
		}
		return c[:a] + "\tBad func(\r" // ... between \r and \n
	case "line-directive-then-error":
		dirs := []string{"//line msg.tmpl:400\n", "//line msg.tmpl:400:80\n", "/*line msg.tmpl:9000*/", "//line api.proto:3\n", "//line msg.y:2147483647\n", "//line api.proto:1\n", "//line api.proto:2:1\n", "/*line api.proto:5*/"}
		dir := dirs[arg%len(dirs)]
		bad := []string{"\t)) oops {{\n", "\tBad [\n", "\tBroken string `json:\"broken\n"}[arg/len(dirs)%3]
		return content[:after] + dir + bad + content[after:]
	case "unterminated-raw-string":
		return content[:after] + "\tBroken string `json:\"broken\n" + content[after:] + "\n"
	}
	return content + "\n}}}\n"
}
