module verifsim

go 1.21
