package e2

import (
	"fmt"
	"strings"
	"verifsim/detsim"
	"verifsim/simsync"
)

type Plan struct {
	Prop       string         `json:"prop"`
	CacheKind  string         `json:"cache"`
	CacheCap   int            `json:"cache_cap,omitempty"`
	LossPm     int            `json:"f5_store_lost_pm,omitempty"`
	MissPm     int            `json:"f6_load_miss_pm,omitempty"`
	FlushPm    int            `json:"f7_flush_pm,omitempty"`
	Clients    [][]Call       `json:"clients"`
	Churn      int            `json:"churn,omitempty"`           // C12: extra calls executed before handed-out strings are re-read
	Cold       bool           `json:"cold_process,omitempty"`    // run as the first thing of a fresh OS process: every lazily filled package-level table of the library is cold
	Bystander  int            `json:"bystander_ops,omitempty"`   // C11: an extra client works on an LRU cache of its own meanwhile (instances must not share state)
	Young      bool           `json:"young_reference,omitempty"` // the references are cross-checked against a brand-new oracle process that sees the calls in reverse order
	FreshAt    int            `json:"fresh_at,omitempty"`        // 1-based index of the call of client 0 whose reference is recomputed in a fresh OS process of its own (0: none)
	SharedArgs bool           `json:"shared_tables,omitempty"`   // rule maps and function tables are package-level objects shared by all calls of all clients (built before the run, never edited by the harness): the library may read them concurrently and must never write to them
	ExecPanics bool           `json:"exec_panics,omitempty"`     // calls whose solo result is a panic are executed too (and must panic the same way); user-supplied functions that panic are part of the vocabulary
	Repeat     int            `json:"repeat,omitempty"`          // > 1: the calls of client 0 from RepeatFrom on are executed that many times in all (long histories: counters that wrap, tables that fill)
	RepeatFrom int            `json:"repeat_from,omitempty"`
	Cfg        simsync.Config `json:"cfg"`
}

// expanded returns the calls client c really executes (Repeat unrolled, sequence numbers put into the tags that ask for one).
func (p *Plan) expanded(c int) []Call {
	calls := p.Clients[c]
	if c != 0 || p.Repeat <= 1 || p.RepeatFrom >= len(calls) {
		return calls
	}
	cyc := calls[p.RepeatFrom:]
	out := make([]Call, 0, len(calls)+(p.Repeat-1)*len(cyc))
	out = append(out, calls[:p.RepeatFrom]...)
	for it := 0; it < p.Repeat; it++ {
		for _, cl := range cyc {
			if cl.TagSeq {
				cl.Tag = fmt.Sprintf("%s%d", cl.Tag, it)
			}
			out = append(out, cl)
		}
	}
	return out
}

func (p *Plan) NCalls() int {
	n := 0
	for _, c := range p.Clients {
		n += len(c)
	}
	return n
}

// FreshProcess: the library's built-in cache cannot be reset, so a run that
// uses it must be the first thing that happens in its process.
func (p *Plan) FreshProcess() bool {
	return p.CacheKind == CacheDefault || p.CacheKind == CacheMapDirect || p.CacheKind == CacheLRUDirect || p.Cold
}

// typePool draws n distinct type ids: a few static ones plus dynamic ones.
func typePool(r *detsim.Rand, n int) []int {
	seen := map[int]bool{}
	var l []int
	for len(l) < n {
		t := 0
		if r.Chance(2, 5) && len(l) < len(statics) {
			t = r.Intn(len(statics))
		} else {
			t = 1000 + r.Intn(NDyn)
		}
		if !seen[t] {
			seen[t] = true
			l = append(l, t)
			// a type and its same-named twin from another package in one history
			if tw := twinOf(t); tw >= 0 && !seen[tw] && len(l) < n && r.Chance(1, 2) {
				seen[tw] = true
				l = append(l, tw)
			}
		}
	}
	return l
}

// twinOf returns the index of the static type with the same Go type name in another package (-1: none).
func twinOf(t int) int {
	if t < 0 || t >= len(statics) {
		return -1
	}
	n := statics[t].name
	for i := range statics {
		if statics[i].name == "Alt"+n || "Alt"+statics[i].name == n {
			return i
		}
		if (n == "LocalA" && statics[i].name == "LocalB") || (n == "LocalB" && statics[i].name == "LocalA") {
			return i
		}
	}
	return -1
}

// tagVariant: a tag name that differs from tg only by blanks around it or by the case of its letters. Struct tag keys are
// matched exactly, so such a name is a tag name of its own (no field carries it: alone the call finds no rule) and must never
// share anything with its twin (seeded C12y trimmed, C08y trimmed and lower-cased the tag name in the cache key only).
func tagVariant(r *detsim.Rand, tg string) string {
	if tg == "" || tg == EmptyTag {
		tg = "valid"
	}
	switch r.Intn(5) {
	case 0:
		return tg + " "
	case 1:
		return " " + tg
	case 2:
		return strings.ToUpper(tg[:1]) + tg[1:]
	case 3:
		return strings.ToUpper(tg)
	}
	return "\t" + tg + " "
}

func tagFor(r *detsim.Rand, t int) string {
	tg := tagFor0(r, t)
	if r.Chance(1, 10) {
		return tagVariant(r, tg)
	}
	return tg
}

func tagFor0(r *detsim.Rand, t int) string {
	if t >= 1000 {
		return []string{"", "", "v2", "valid", EmptyTag}[r.Weighted([]int{3, 3, 3, 3, 1})]
	}
	tags := statics[t].tags
	tg := tags[r.Intn(len(tags))]
	if tg == "" && r.Chance(1, 6) {
		tg = "valid"
	}
	if r.Chance(1, 12) {
		// the empty tag name passed explicitly ("rules only, ignore the struct tags") is a tag name of its own, not the default one
		// (seeded C08r keyed the default tag as "")
		tg = EmptyTag
	}
	return tg
}

func genStructCall(r *detsim.Rand, types []int, overrides bool) Call {
	t := types[r.Intn(len(types))]
	c := Call{Type: t, Val: r.Intn(16)}
	switch r.Weighted([]int{30, 20, 10, 20, 8, 6, 6, 5}) {
	case 0:
		c.Entry = EStruct
		if overrides && r.Chance(1, 3) {
			c.Rule = 1 + r.Intn(len(ruleSets)-1)
		}
	case 1:
		c.Entry = EStructForFn
		c.Tag = tagFor(r, t)
		if overrides && r.Chance(1, 2) {
			c.Rule = 1 + r.Intn(len(ruleSets)-1)
		}
	case 2:
		c.Entry = EStructForFns
		c.Tag = tagFor(r, t)
		if overrides {
			c.Rule = r.Intn(len(ruleSets))
			c.Fn = r.Intn(NFnSets)
		}
	case 3:
		c.Entry = EValidate
		c.Tag = tagFor(r, t)
	case 4:
		c.Entry = ERuleFirst
		c.Tag = tagFor(r, t)
		if overrides {
			c.Rule = r.Intn(len(ruleSets))
		}
	case 5:
		c.Entry = ENested
		if overrides {
			c.Rule = r.Intn(len(ruleSets))
		}
	case 6:
		c.Entry = EMyFn
		c.Tag = tagFor(r, t)
		c.Fn = r.Intn(2)
	case 7:
		c.Entry = EChain
		c.Tag = tagFor(r, t)
		c.Rule = r.Intn(len(ruleSets))
		if overrides {
			c.Fn = r.Intn(NFnSets)
		}
	}
	if overrides && typeName(t) == "Order" && c.Entry != EMyFn && r.Chance(1, 2) {
		c.Rule = 9 + r.Intn(2) // the overrides that name one of the type's time.Time fields
	}
	if r.Chance(1, 6) {
		c.Shape = 1 + r.Intn(6)
	}
	if c.Rule != 0 && c.Entry != ENested && c.Entry != EChain && r.Chance(1, 3) {
		c.Keep = true
	}
	return c
}

func genAnyCall(r *detsim.Rand, types []int) Call {
	switch r.Weighted([]int{55, 10, 3, 7, 3, 6, 2, 4, 3, 4, 3, 4, 3, 3, 2, 3, 4, 2, 2}) {
	case 16:
		return Call{Entry: EHelper, Val: r.Intn(NHelpers)}
	case 17:
		return Call{Entry: EMapRetry, Val: r.Intn(15), Rule: r.Intn(6), Shape: r.Intn(3), Fn: r.Intn(2)}
	case 18:
		return Call{Entry: EUrlRetry, Val: r.Intn(len(urls)), Rule: r.Intn(len(urlRules)), Shape: r.Intn(2), Fn: r.Intn(2)}
	case 15:
		return Call{Entry: EDumpJson, Type: types[r.Intn(len(types))], Val: r.Intn(12), Shape: r.Intn(2)}
	case 12:
		return Call{Entry: EEscape, Val: r.Intn(len(escapeInputs))}
	case 13:
		return Call{Entry: ETimeFmt, Val: r.Intn(len(timeFmtSeps)), Rule: r.Intn(5)}
	case 14:
		return Call{Entry: EParseKV, Val: r.Intn(len(parseKVInputs))}
	case 0:
		return genStructCall(r, types, true)
	case 1:
		return genVarCall(r, -1)
	case 2:
		return Call{Entry: EVarForFn, Val: r.Intn(len(varVals))}
	case 3:
		return Call{Entry: EMap, Val: r.Intn(15), Rule: r.Intn(7), Shape: r.Intn(3)}
	case 4:
		return Call{Entry: EMapFn, Val: r.Intn(15), Rule: r.Intn(7), Shape: r.Intn(3), Fn: r.Intn(NFnSets)}
	case 5:
		return Call{Entry: EUrl, Val: r.Intn(len(urls)), Rule: r.Intn(len(urlRules)), Shape: r.Intn(2)}
	case 6:
		return Call{Entry: EUrlForFn, Val: r.Intn(len(urls))}
	case 7:
		return Call{Entry: EExplain, Val: r.Intn(len(explainInputs))}
	case 8:
		return Call{Entry: EGenKV, Val: r.Intn(len(genKV))}
	case 9:
		return Call{Entry: ESplit, Val: r.Intn(len(splitInputs))}
	case 11:
		return Call{Entry: EVarChain, Val: r.Intn(len(varVals)), Rule: r.Intn(len(varRules)), Fn: r.Intn(NFnSets)}
	}
	return Call{Entry: EDump, Type: types[r.Intn(len(types))], Val: r.Intn(12), Shape: r.Intn(3)}
}

// coldWide turns a C11 plan into a first-use storm: a fresh process in which 3..6 clients each walk through many
// struct types nobody has validated yet (every type twice in a row, under one or two tag names), one client stalled for
// a long stretch. Whatever the library sets up lazily per type - and keeps for the life of the process - is set up
// here by several clients at once.
func coldWide(r *detsim.Rand, p *Plan) {
	p.Cold = true
	p.Young, p.FreshAt, p.Bystander = false, 0, 0
	nc := 3 + r.Intn(4)
	per := 40 + r.Intn(80)
	p.Clients = nil
	for c := 0; c < nc; c++ {
		var calls []Call
		for i := 0; i < per; i++ {
			cl := Call{Entry: EValidate, Type: 1000 + r.Intn(NDyn), Val: r.Intn(12), Tag: []string{"", "v2", ""}[r.Intn(3)]}
			calls = append(calls, cl)
			if r.Chance(2, 3) {
				calls = append(calls, cl)
			}
		}
		p.Clients = append(p.Clients, calls)
	}
	est := nc * per * 30
	p.Cfg.Policy = simsync.PolicyUniform
	p.Cfg.StallTask = r.Intn(nc)
	p.Cfg.StallFrom = r.Intn(est / 2)
	p.Cfg.StallLen = est / 4
	p.Cfg.PostYields = true
}

// genVarCall draws a Var call; fam >= 0 restricts the rule to one family of the rule-text swarm.
func genVarCall(r *detsim.Rand, fam int) Call {
	c := Call{Entry: EVar, Val: r.Intn(len(varVals)), Rule: r.Intn(len(varRules))}
	if fam < 0 && len(varFamilies) > 0 && r.Chance(1, 2) {
		fam = r.Intn(len(varFamilies))
	}
	if fam >= 0 {
		f := varFamilies[fam%len(varFamilies)]
		c.Rule = f[0] + r.Intn(f[1]-f[0])
	}
	if i := c.Rule - dtRuleFrom; i >= 0 && i < dtTriples && r.Chance(3, 5) {
		// a date-time written with exactly the separators this rule names (alone, the call succeeds); otherwise any value
		c.Val = dtValFrom + i
		if r.Chance(1, 4) {
			c.Val = dtValFrom + r.Intn(dtTriples)
		}
	}
	return c
}

func genCache(r *detsim.Rand, p *Plan, allowDefault bool, faults bool) (ntypes int) {
	switch r.Weighted([]int{50, 6, 15, 10, 8, 5, 5}) {
	case 6:
		if allowDefault {
			p.CacheKind, p.CacheCap = CacheLRUDirect, []int{0, 1, 2, 3, 8}[r.Intn(5)]
			ntypes = 2*p.CacheCap + 3
		} else {
			p.CacheKind, p.CacheCap = CacheLRU, 3
			ntypes = 8
		}
	case 5:
		if allowDefault {
			p.CacheKind = CacheMapDirect
			ntypes = 4 + r.Intn(30)
		} else {
			p.CacheKind = CacheMap
			ntypes = 6
		}
	case 0:
		p.CacheKind, p.CacheCap = CacheLRU, []int{0, 1, 2, 3, 8}[r.Intn(5)]
		ntypes = 2*p.CacheCap + 3
		if r.Chance(1, 4) {
			ntypes = p.CacheCap + 1
		}
	case 1:
		p.CacheKind, p.CacheCap = CacheLRU, 512
		ntypes = 560
	case 2:
		p.CacheKind = CacheMap
		ntypes = 4 + r.Intn(30)
	case 3:
		p.CacheKind = CacheMiss
		ntypes = 2 + r.Intn(8)
	case 4:
		if allowDefault {
			p.CacheKind = CacheDefault
			ntypes = 6 + r.Intn(20)
			if r.Chance(1, 2) {
				ntypes = 560 // more distinct types than the built-in capacity
			}
		} else {
			p.CacheKind, p.CacheCap = CacheLRU, 2
			ntypes = 6
		}
	}
	if faults && p.CacheKind != CacheDefault && p.CacheKind != CacheMapDirect && p.CacheKind != CacheLRUDirect && p.CacheKind != CacheMiss && r.Chance(3, 5) {
		switch r.Intn(3) {
		case 0:
			p.LossPm = []int{50, 300}[r.Intn(2)]
		case 1:
			p.MissPm = []int{50, 300}[r.Intn(2)]
		case 2:
			p.LossPm, p.MissPm = 100, 100
		}
	}
	return
}

// GenC08: one client, struct validations over more types than the cache
// holds, the same type recurring under different tag names; pools pinned to
// "always fresh" so that only the cache can carry state.
func GenC08(r *detsim.Rand, tier string) *Plan {
	p := &Plan{Prop: "C08"}
	p.Cfg = simsync.Config{Policy: simsync.PolicyUniform, StallTask: -1, Pool: simsync.PoolFresh}
	if r.Chance(2, 5) {
		// swarm: in 2 of 5 histories the pools recycle as well, so that state kept next to the cache
		// (e.g. a per-validator memo of the last analysed type) is exercised under C08 too
		p.Cfg.Pool = []simsync.PoolMode{simsync.PoolLIFO, simsync.PoolFIFO, simsync.PoolRandom}[r.Intn(3)]
	}
	nt := genCache(r, p, true, true)
	if p.CacheKind != CacheDefault && p.CacheKind != CacheMapDirect && p.CacheKind != CacheLRUDirect && p.CacheKind != CacheMiss && r.Chance(1, 6) {
		p.FlushPm = 30
	}
	types := typePool(r, nt)
	n := 20 + r.Intn(120)
	if r.Chance(1, 5) {
		n = 200 + r.Intn(200)
	}
	if nt > 500 {
		n = nt + 100 + r.Intn(200)
	}
	overrides := r.Chance(2, 3)
	calls := make([]Call, 0, n)
	for i := 0; i < n; i++ {
		c := genStructCall(r, types, overrides)
		if nt > 500 && i < nt {
			c.Type = types[i] // touch every type once: the cache overflows for sure
		}
		calls = append(calls, c)
		// the same type again soon, under another tag: the case the property singles out
		if r.Chance(1, 4) {
			d := c
			d.Entry = []string{EValidate, EStructForFn}[r.Intn(2)]
			d.Tag = tagFor(r, c.Type)
			d.Val = r.Intn(12)
			calls = append(calls, d)
			i++
		}
	}
	p.Clients = [][]Call{calls}
	if r.Chance(1, 8) && len(calls) <= 200 {
		addRegistrations(r, p)
	}
	freshSample(r, p, tier)
	if r.Chance(1, 16) {
		makeCard(r, p, 1, true) // hundreds to thousands of distinct tag names / struct types, the early ones met again later
	}
	return p
}

// addRegistrations turns a single-client history into one that registers 1..3 NEW global validation functions on its
// way, with calls that use those names (through Var and through the tag of a struct type made for this history)
// before and after each registration.
func addRegistrations(r *detsim.Rand, p *Plan) {
	u := fmt.Sprintf("%x", r.Uint64()&0xffffffffff)
	calls := p.Clients[0]
	n := 1 + r.Intn(3)
	use := func(j int) Call {
		if r.Chance(1, 2) {
			return Call{Entry: EVarG, Val: r.Intn(len(varVals)), Rule: j, U: u}
		}
		c := Call{Entry: []string{EStruct, EValidate, EStructForFn}[r.Intn(3)], Type: 3000 + j, Val: r.Intn(30), U: u}
		if c.Entry != EStruct && r.Chance(1, 3) {
			c.Tag = "v2"
		}
		return c
	}
	var out []Call
	cut := func(k int) int { return len(calls) * k / (n + 1) }
	for j := 0; j < n; j++ {
		out = append(out, calls[cut(j):cut(j+1)]...)
		for k := 0; k <= j; k++ { // uses before this registration: name j is still unknown, earlier ones are known
			out = append(out, use(k))
		}
		out = append(out, Call{Entry: ERegister, Val: j, U: u})
		for k := 0; k <= j; k++ {
			out = append(out, use(k), use(k))
		}
	}
	out = append(out, calls[cut(n):]...)
	for k := 0; k < n; k++ {
		out = append(out, use(k))
	}
	p.Clients[0] = out
}

// freshSample: in the thorough tier a sample of descriptors is additionally evaluated in a fresh OS process each.
func freshSample(r *detsim.Rand, p *Plan, tier string) {
	if p.NCalls() <= 120 && r.Chance(1, 4) {
		p.Young = true
	}
	if p.NCalls() <= 200 && r.Chance(1, 12) {
		p.Cold = true
	}
	if tier == "thorough" && len(p.Clients) > 0 && len(p.Clients[0]) > 0 && r.Chance(1, 40) {
		p.FreshAt = 1 + r.Intn(len(p.Clients[0]))
	}
}

func genPoolCfg(r *detsim.Rand, c *simsync.Config, recycleHeavy bool) {
	if recycleHeavy {
		c.Pool = []simsync.PoolMode{simsync.PoolLIFO, simsync.PoolLIFO, simsync.PoolFIFO, simsync.PoolFIFO, simsync.PoolRandom, simsync.PoolFresh}[r.Intn(6)]
	} else {
		c.Pool = simsync.PoolMode(r.Intn(4))
	}
	if c.Pool != simsync.PoolFresh && r.Chance(1, 2) {
		switch r.Intn(4) {
		case 0:
			c.GetFreshPermille = []int{50, 300}[r.Intn(2)]
		case 1:
			c.GetAnyPermille = []int{100, 500}[r.Intn(2)]
		case 2:
			c.PutDropPermille = []int{50, 250}[r.Intn(2)]
		case 3:
			c.FlushPermille = 20
			c.GetAnyPermille = 100
		}
	}
}

// GenC12: one client, heterogeneous calls, pools that recycle as much as possible.
func GenC12(r *detsim.Rand, tier string) *Plan {
	p := &Plan{Prop: "C12"}
	p.Cfg = simsync.Config{Policy: simsync.PolicyUniform, StallTask: -1}
	genPoolCfg(r, &p.Cfg, true)
	nt := genCache(r, p, true, r.Chance(1, 3))
	if nt > 60 && p.CacheKind != CacheDefault {
		nt = 12
		p.CacheCap = 8
	}
	types := typePool(r, nt)
	n := 10 + r.Intn(60)
	if r.Chance(1, 4) {
		n = 80 + r.Intn(220)
	}
	if nt > 500 {
		n = nt + 50
	}
	calls := make([]Call, 0, 2*n)
	focus := -1
	if len(varFamilies) > 0 && r.Chance(1, 4) {
		focus = r.Intn(len(varFamilies)) // this history keeps returning to one rule family with different arguments
	}
	for i := 0; i < n; i++ {
		c := genAnyCall(r, types)
		if focus >= 0 && r.Chance(1, 2) {
			c = genVarCall(r, focus)
		}
		if nt > 500 && i < nt && c.IsStruct() {
			c.Type = types[i]
		}
		calls = append(calls, c)
	}
	if r.Chance(1, 4) {
		// the same multiset of calls once more, in a seeded permutation
		perm := append([]Call(nil), calls...)
		for i := len(perm) - 1; i > 0; i-- {
			j := r.Intn(i + 1)
			perm[i], perm[j] = perm[j], perm[i]
		}
		calls = append(calls, perm...)
	}
	p.Clients = [][]Call{calls}
	p.Churn = []int{0, 50, 300, 2000}[r.Weighted([]int{2, 4, 3, 1})]
	if r.Chance(1, 8) && len(calls) <= 200 {
		addRegistrations(r, p)
	}
	freshSample(r, p, tier)
	if r.Chance(1, 20) {
		makeCard(r, p, 1, false) // hundreds to thousands of distinct rule texts / tag names / keys / types, the early ones met again later
	}
	return p
}

// GenC11: 2..32 clients on shared and private types.
func GenC11(r *detsim.Rand, tier string) *Plan {
	p := &Plan{Prop: "C11"}
	nc := 2 + r.Intn(5)
	switch r.Weighted([]int{70, 25, 5}) {
	case 1:
		nc = 6 + r.Intn(11)
	case 2:
		nc = 17 + r.Intn(16)
	}
	nt := genCache(r, p, true, r.Chance(1, 3))
	p.FlushPm = 0
	big := nt > 500
	if big && p.CacheKind != CacheDefault {
		nt, p.CacheCap, big = 10, 3, false
	}
	shared := typePool(r, nt)
	per := 1 + r.Intn(8)
	if big {
		per = 560/nc + 8
	}
	next := 0
	// focus (1 run in 3): every client keeps calling into the same one or two types / the same rule family with its own
	// values, so that several clients are inside the same function at the same time
	var hot []int
	hotFam := -1
	if !big && r.Chance(1, 3) {
		hot = typePool(r, 1+r.Intn(2))
		if len(varFamilies) > 0 && r.Chance(1, 3) {
			hotFam = r.Intn(len(varFamilies))
		}
	}
	for c := 0; c < nc; c++ {
		types := shared
		if r.Chance(1, 4) && !big {
			types = typePool(r, 1+r.Intn(3)) // private types
		}
		calls := make([]Call, 0, per)
		for i := 0; i < per; i++ {
			cl := genAnyCall(r, types)
			if hot != nil && r.Chance(3, 4) {
				if hotFam >= 0 && r.Chance(1, 2) {
					cl = genVarCall(r, hotFam)
				} else {
					cl = genStructCall(r, hot, true)
				}
			}
			if big && cl.IsStruct() {
				cl.Type = shared[next%len(shared)]
				next++
			}
			calls = append(calls, cl)
		}
		p.Clients = append(p.Clients, calls)
	}
	est := nc * per * 25
	c := simsync.Config{StallTask: -1}
	switch r.Weighted([]int{35, 35, 30}) {
	case 0:
		c.Policy = simsync.PolicyUniform
	case 1:
		c.Policy = simsync.PolicySticky
		c.SwitchPermille = []int{20, 100, 300, 600}[r.Intn(4)]
	case 2:
		c.Policy = simsync.PolicyPCT
		c.PCTDepth = 1 + r.Intn(3)
		c.PCTSteps = est
	}
	if r.Chance(1, 5) {
		c.StallTask = r.Intn(nc)
		c.StallFrom = r.Intn(est/2 + 1)
		c.StallLen = 1 + r.Intn(est)
	}
	genPoolCfg(r, &c, false)
	c.PYields = r.Chance(1, 3)
	c.PostYields = r.Chance(1, 2)
	p.Cfg = c
	if r.Chance(1, 5) {
		p.Bystander = 6 + r.Intn(20)
	}
	freshSample(r, p, tier)
	if !big && r.Chance(1, 12) {
		coldWide(r, p)
	} else if !big && r.Chance(1, 24) {
		makeCard(r, p, 2+r.Intn(3), false) // several clients walk through the same few hundred distinct rule texts / tag names / keys
	}
	return p
}

// ---------------------------------------------------------------- long histories (one per worker and batch)

// NLong is the number of long histories of C08 / C12: the driver gives each of its 16 workers one.
const NLong = 16

// GenLong returns the n-th long history: a short prefix, then ONE or two calls repeated more than 2^16 times by one client
// whose pools recycle perfectly (LIFO, no faults), i.e. the same pooled objects are reused more than 65536 times and, for
// C08, more than 65536 tag names nobody used before are seen by the process. Everything a library counts in 16 bits - a
// generation stamp on a pooled object, an interned id - has wrapped by the end (seeded C12o, C08o).
func GenLong(prop string, n uint64) *Plan {
	r := detsim.NewRand(0x10c6 ^ n*0x9E3779B97F4A7C15)
	p := &Plan{Prop: prop}
	p.Cfg = simsync.Config{Policy: simsync.PolicyUniform, StallTask: -1, Pool: simsync.PoolLIFO, StepCap: 400000000}
	p.CacheKind, p.CacheCap = CacheLRU, []int{2, 3, 8}[r.Intn(3)]
	if r.Chance(1, 3) {
		p.CacheKind = CacheMap
	}
	p.Repeat = 65536 + 40 + r.Intn(400)
	var calls []Call
	if prop == "C08" {
		// the same value under the default tag and under a brand-new tag name, again and again
		t := []int{0, 1, 2, 5, 11}[r.Intn(5)] // Pay, User, Item, OnePair, Order: types with rules under several tags
		v := r.Intn(12)
		calls = append(calls, Call{Entry: EValidate, Type: t, Val: v, Tag: "v2"})
		p.RepeatFrom = len(calls)
		calls = append(calls, Call{Entry: EValidate, Type: t, Val: v})
		calls = append(calls, Call{Entry: []string{EValidate, EStructForFn}[r.Intn(2)], Type: t, Val: v, Tag: "zz", TagSeq: true})
	} else {
		// a call that brings its own function for a rule name (and a rule override), then calls that use the name without
		switch n % 4 {
		case 0, 1:
			calls = append(calls, Call{Entry: EStructForFns, Type: 6, Val: r.Intn(8), Fn: []int{1, 4}[r.Intn(2)], Rule: r.Intn(3)}) // Cust: Code `odd`
			p.RepeatFrom = len(calls)
			calls = append(calls, Call{Entry: []string{EStruct, EValidate}[r.Intn(2)], Type: 6, Val: r.Intn(8)})
		case 2:
			calls = append(calls, Call{Entry: EVarChain, Val: 1 + r.Intn(3), Rule: 6, Fn: 1}) // rule "odd" with a function of the call's own
			p.RepeatFrom = len(calls)
			calls = append(calls, Call{Entry: EVar, Val: 1 + r.Intn(3), Rule: 6}) // "odd" is unknown without it
		case 3:
			types := []int{0, 1, 2, 6, 9}
			calls = append(calls, genAnyCall(r, types), genAnyCall(r, types), genAnyCall(r, types))
			p.RepeatFrom = len(calls)
			calls = append(calls, genAnyCall(r, types))
			if r.Chance(1, 2) {
				calls = append(calls, genAnyCall(r, types))
				p.Repeat = p.Repeat/2 + 40
			}
		}
	}
	p.Clients = [][]Call{calls}
	p.Cfg.Clock = simsync.ClockMode(n % 4)
	return p
}
