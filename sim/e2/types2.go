package e2

import (
	"fmt"
	"reflect"
	"sync"
)

// Wide exercises the built-in rules the other static types do not use, with
// values that pass, fail and are empty; several values per rule kind so that
// two clients inside the same rule at the same time work on different texts.
type Wide struct {
	Json  string   `valid:"json" v2:"required"`
	JsonM string   `valid:"json|not json"`
	Email string   `valid:"email"`
	When  string   `valid:"datetime"`
	Month string   `valid:"year2month=/"`
	Year  string   `valid:"year"`
	Ints  string   `valid:"ints"`
	IntsS []string `valid:"ints"`
	Float string   `valid:"float"`
	Pre   string   `valid:"prefix=ab"`
	Suf   string   `valid:"suffix=yz"`
	Inc   string   `valid:"include=(mid/dle)"`
	Eq    string   `valid:"eq=3"`
	NoEq  int      `valid:"noeq=3"`
	Gt    int      `valid:"gt=3"`
	Lt    []int    `valid:"lt=3"`
	ID    string   `valid:"idcard"`
	IP    string   `valid:"ip"`
	IP6   string   `valid:"ipv6"`
	Uniq  string   `valid:"unique"`
	IntF  string   `valid:"int" v2:"le=2"`
}

func pick(v, salt int, l ...string) string { return l[(v+salt)%len(l)] }

// longBadJSON: an invalid JSON text of about n bytes whose content depends on v (two clients inside the json rule at
// the same time then work on different long texts).
func longBadJSON(v, n int) string {
	unit := fmt.Sprintf(`"k%d":'v%d', `, v, v*7)
	s := "{"
	for len(s) < n {
		s += unit
	}
	return s
}

func mkWide(v int) *Wide {
	w := &Wide{
		Json:  pick(v, 0, "", `{"a":1}`, `{"a":`, `["x", 'WW`+strN(v%5)+`]`, `{"k`+strN(v%4)+`": nope}`, longBadJSON(v, 140), longBadJSON(v, 200), longBadJSON(v, 300)),
		JsonM: pick(v, 1, "", `[1,2]`, `[1,2`, `{'q`+strN(v%3)+`'}`),
		Email: pick(v, 2, "", "a@b.cn", "a@b", "x"+strN(v%4)+"@@y"),
		When:  pick(v, 0, "", "2024-01-02 03:04:05", "2024-01-02", "24-1-2 3:4:5"),
		Month: pick(v, 1, "", "2024/01", "2024-01", "202401"),
		Year:  pick(v, 2, "", "2024", "24", "y"+strN(v%3)),
		Ints:  pick(v, 0, "", "1,2,3", "1,a,3", "1,,"+strN(v%3)),
		Float: pick(v, 1, "", "1.5", "1", "a.b"),
		Pre:   pick(v, 2, "", "abc", "xabc", "b"+strN(v%4)),
		Suf:   pick(v, 0, "", "wxyz", "yzw", strN(v%4)+"z"),
		Inc:   pick(v, 1, "", "amidb", "middle", "none"+strN(v%3)),
		Eq:    pick(v, 2, "", "abc", "ab", strN(v%6)),
		NoEq:  []int{0, 3, 4}[v%3],
		Gt:    []int{0, 3, 9}[(v+1)%3],
		ID:    pick(v, 0, "", "110101199003071234", "11010119900307123X", "123"+strN(v%3)),
		IP:    pick(v, 1, "", "10.0.0.1", "::1", "10.0.0."+strN(v%3)),
		IP6:   pick(v, 2, "", "::1", "10.0.0.1", "fe80::"+strN(v%2)),
		Uniq:  pick(v, 0, "", "a,b,c", "a,b,a", "x"+strN(v%2)+",x"+strN(v%2)),
		IntF:  pick(v, 1, "", "12", "1x", strN(v%3)),
	}
	switch v % 3 {
	case 1:
		w.IntsS = []string{"1", "2"}
		w.Lt = []int{1}
	case 2:
		w.IntsS = []string{"1", "b" + strN(v%3)}
		w.Lt = []int{1, 2, 3, 4}
	}
	return w
}

func init() {
	statics = append(statics, typeInfo{"Wide", func(v int) interface{} { return mkWide(v) }, []string{"", "v2"}})
}

// Node is a recursive type: deep nesting through pointers.
type Node struct {
	Name string `valid:"required,le=4" v2:"ge=2"`
	Next *Node  `valid:"exist"`
	Kids []Node `valid:"exist"`
}

func mkNode(v int) *Node {
	depth := []int{1, 3, 12, 40}[v%4]
	var head *Node
	for i := depth; i > 0; i-- {
		n := &Node{Name: strN((v + i) % 7), Next: head}
		if i%5 == 0 {
			n.Kids = []Node{{Name: strN(i % 6)}, {Name: ""}}
		}
		head = n
	}
	return head
}

// Big has long values and long collections: sizes beyond the thresholds small workloads stay under.
type Big struct {
	Text  string   `valid:"required,le=200|text too long" v2:"ge=500"`
	Words []string `valid:"unique,le=100"`
	Nums  []int    `valid:"required,lt=300"`
	Items []*Item  `valid:"exist"`
	Note  string   `valid:"exist,re='^[a-z ,]{0,300}$'"`
}

func mkBig(v int) *Big {
	b := &Big{Text: strN([]int{0, 10, 150, 260, 700}[v%5])}
	n := []int{0, 3, 70, 150}[v%4]
	for i := 0; i < n; i++ {
		b.Words = append(b.Words, "w"+strN(i%9)+string(rune('a'+i%26)))
		b.Nums = append(b.Nums, i)
	}
	if v%3 == 1 {
		b.Words = append(b.Words, b.Words...)
	}
	for i := 0; i < []int{0, 2, 64}[v%3]; i++ {
		b.Items = append(b.Items, mkItem(i+v))
	}
	b.Note = []string{"", "ok note", strN(120) + ", " + strN(150), "BAD" + strN(310)}[v%4]
	return b
}

func init() {
	statics = append(statics,
		typeInfo{"Node", func(v int) interface{} { return mkNode(v) }, []string{"", "v2"}},
		typeInfo{"Big", func(v int) interface{} { return mkBig(v) }, []string{"", "v2"}})
}

// ---- Chain: ONE value whose graph contains hundreds of DISTINCT struct types (a pointer chain of run-time types),
// more than the library's built-in cache holds: entries are evicted while the call that stored them is still running.

var (
	chainMu    sync.Mutex
	chainTypes = map[int]reflect.Type{}
)

// chainType(d): struct{ Next *chainType(d-1) `valid:"exist"`; Note string `valid:"le=3"`; Name string `valid:"required"` }, distinct per d.
func chainType(d int) reflect.Type {
	chainMu.Lock()
	defer chainMu.Unlock()
	var build func(d int) reflect.Type
	build = func(d int) reflect.Type {
		if t, ok := chainTypes[d]; ok {
			return t
		}
		fields := []reflect.StructField{}
		if d > 0 {
			fields = append(fields, reflect.StructField{Name: "Next", Type: reflect.PtrTo(build(d - 1)), Tag: `valid:"exist" v2:"required"`})
		}
		fields = append(fields,
			reflect.StructField{Name: "Note", Type: reflect.TypeOf(""), Tag: reflect.StructTag(fmt.Sprintf(`valid:"le=3" lvl:"%d"`, d))},
			reflect.StructField{Name: "Name", Type: reflect.TypeOf(""), Tag: `valid:"required" v2:"le=2"`})
		t := reflect.StructOf(fields)
		chainTypes[d] = t
		return t
	}
	// build bottom-up in steps so that the recursion stays shallow
	for i := 0; i <= d; i += 50 {
		build(i)
	}
	return build(d)
}

func mkChain(v int) interface{} {
	depth := []int{3, 20, 100, 3, 40, 10, 150, 600}[v%8]
	var next reflect.Value
	for d := 0; d <= depth; d++ {
		p := reflect.New(chainType(d))
		e := p.Elem()
		if d > 0 {
			e.FieldByName("Next").Set(next)
		}
		if (d+v)%7 == 0 {
			e.FieldByName("Note").SetString("toolong")
		}
		if d != depth || v >= 8 {
			e.FieldByName("Name").SetString("n")
		}
		next = p
	}
	return next.Interface()
}

func init() {
	statics = append(statics, typeInfo{"Chain", mkChain, []string{"", "v2"}})
}

// ---- rule-text swarm for Var: every built-in rule with several argument variants (separators incl. the empty string and
// multi-character ones, bounds, option sets, patterns) x a pool of values. The oracle process says what each pair yields alone;
// no model of any rule is needed. Families are kept together so that one history can focus on one of them.

var varFamilies [][2]int // [from,to) ranges of varRules per rule family

// the first dtTriples rules of family 0 are datetime='a,b,c' for every separator triple; varVals[dtValFrom+i] is valid for rule dtRuleFrom+i
var dtRuleFrom, dtValFrom, dtTriples int

func init() {
	add := func(rules ...[]string) {
		from := len(varRules)
		varRules = append(varRules, rules...)
		varFamilies = append(varFamilies, [2]int{from, len(varRules)})
	}
	one := func(l ...string) [][]string {
		var o [][]string
		for _, r := range l {
			o = append(o, []string{r})
		}
		return o
	}
	seps := []string{"", "-", " ", ":", "/"}
	var dt []string
	for _, a := range seps {
		for _, b := range seps {
			for _, c := range seps {
				dt = append(dt, "datetime='"+a+","+b+","+c+"'")
			}
		}
	}
	dt = append(dt, "datetime", "datetime=/", "datetime='/, ,/'", "datetime='- ,,:'", "datetime=', ,'", "datetime=' ,,'")
	add(one(dt...)...)
	add(one("date", "date=/", "date=.", "date=' '", "date='- '", "year2month", "year2month=/", "year2month=.", "year2month=' '", "year", "year=x")...)
	add(one("ints", "ints=-", "ints=/", "ints=;", "ints=' '", "ints='1'", "unique", "int", "float")...)
	var rng []string
	nums := []string{"0", "1", "2", "3", "5", "10", "100"}
	for i, a := range nums {
		for _, b := range nums[i+1:] {
			rng = append(rng, "to="+a+"~"+b, "oto="+a+"~"+b)
		}
		rng = append(rng, "ge="+a, "le="+a, "gt="+a, "lt="+a, "eq="+a, "noeq="+a)
	}
	add(one(rng...)...)
	add(one("in=(a/b/c)", "in=(ab/c)", "in=(a/bc)", "in=(1/2/3)", "in=(12/3)", "in=(1/23)", "include=(ab/cd)", "include=(a/bcd)", "include=(abc/d)",
		"prefix=ab", "prefix=a", "prefix=abc", "suffix=yz", "suffix=z", "suffix=xyz")...)
	add(one("re='^a,b$'", "re='^a+$'", "re='^a{1,2}$'", "re='^[a-c]+$'", "re='^\\d+$'", "re='^\\d{1,3}$'", "re='('", "re='^x{0,3}$'|pattern",
		"phone", "email", "idcard", "ip", "ipv4", "ipv6", "json", "required", "exist", "either=1", "botheq=1", "file", "dir")...)

	// one value per separator triple, in the order of the datetime rules above: value i is a valid date-time for rule i
	dtValFrom = len(varVals)
	for _, a := range seps {
		for _, b := range seps {
			for _, c := range seps {
				d := "2023" + a + "01" + a + "02" + b + "10" + c + "00" + c + "00"
				varVals = append(varVals, func() interface{} { return d })
			}
		}
	}
	dtRuleFrom, dtTriples = varFamilies[0][0], len(seps)*len(seps)*len(seps)
	for _, x := range []interface{}{"2023-01-02", "2023/01/02", "2023.01", "2023 01", "2023", "1,2,3", "1-2-3", "1/2/x", "1 2 3", "a", "ab", "abc", "abxyz", "bc", "c",
		"12", "23", "3", "aaa", "a,b", "10.0.0.1", "::1", "a@b.cn", "13812345678", "110101199003071234", `{"a":1}`, `{"a":`,
		0, 1, 2, 3, 5, 10, 100, 101, -1, 2.5, uint8(3), int64(10), []int{1, 2, 3}, []int{1, 1}, []string{"a", "b", "c"}, []string{"1", "2"}, []float64{1.5, 1.5}, true} {
		x := x
		varVals = append(varVals, func() interface{} { return x })
	}
}

// ---- two DIFFERENT struct types whose reflect.Type.String() is the same ("e2.Local"): declared under the same name
// in two functions. Anything keyed by the printed name of a type instead of its identity confuses them.

func mkLocalA(v int) interface{} {
	type Local struct {
		Name string `valid:"required,le=3" v2:"ge=2"`
		Age  int    `valid:"ge=18"`
	}
	return &Local{Name: strN(v % 6), Age: (v * 7) % 40}
}

func mkLocalB(v int) interface{} {
	type Local struct {
		Code  string `valid:"required,ge=4" v2:"le=1"`
		Name  string `valid:"exist,phone"`
		Count int    `valid:"required,le=2"`
		Note  string `valid:"le=1"`
	}
	return &Local{Code: strN(v % 7), Name: phones[v%4], Count: v % 5, Note: strN(v % 3)}
}

func init() {
	statics = append(statics,
		typeInfo{"LocalA", mkLocalA, []string{"", "v2"}},
		typeInfo{"LocalB", mkLocalB, []string{"", "v2"}})
}

// Box holds values of a struct type WITHOUT any rule (Plain) directly, behind a pointer and in every kind of container: a
// per-type rule set for Plain handed to NestedStructForRule must reach all of them, whether Plain has been analysed
// before or not (seeded C08n skipped cached rule-less element types of containers).
type Box struct {
	Name  string            `valid:"required" v2:"le=2"`
	One   *Plain            `valid:"exist" v2:"exist"`
	List  []Plain           `valid:"exist" v2:"required"`
	Ptrs  []*Plain          `valid:"required"`
	Arr   [2]Plain          `valid:"exist"`
	ByKey map[string]*Plain `valid:"exist"`
}

func mkPlain(v int) Plain { return Plain{Name: strN(v % 4), Age: v % 3, Code: strN((v * 5) % 4)} }

func mkBox(v int) interface{} {
	b := &Box{Name: []string{"", "b", "box"}[v%3]}
	if v%2 == 0 {
		pl := mkPlain(v / 2)
		b.One = &pl
	}
	for i := 0; i < v%3; i++ {
		b.List = append(b.List, mkPlain(v+i))
		pl := mkPlain(v + 2*i + 1)
		b.Ptrs = append(b.Ptrs, &pl)
	}
	b.Arr = [2]Plain{mkPlain(v), mkPlain(v + 1)}
	if v%4 == 3 {
		pl := mkPlain(v)
		b.ByKey = map[string]*Plain{"k": &pl}
	}
	return b
}

func init() {
	statics = append(statics, typeInfo{"Box", mkBox, []string{"", "v2"}})
}

// Link is a linked list validated level by level through `exist`: values of 1 .. 3000 levels, among them the round numbers a
// recursion guard would pick as its limit and their neighbours (seeded C11n, C12p: a nesting limit of 1024 / 1000 whose counter
// was shared between goroutines / leaked on the overflow path). Only the last node is invalid.
type Link struct {
	Name string `valid:"required" v2:"le=1"`
	Next *Link  `valid:"exist" v2:"exist"`
}

var linkDepths = []int{1, 64, 100, 128, 256, 512, 1000, 1001, 1024, 1025, 3000, 999, 1023, 500, 2048, 65}

func mkLink(v int) interface{} {
	var head *Link
	for i := linkDepths[v%len(linkDepths)]; i > 0; i-- {
		n := &Link{Name: "n", Next: head}
		if head == nil {
			n.Name = ""
		}
		head = n
	}
	return head
}

// Outer nests Cust (whose Code field carries the rule `odd`, known only through a function of the call's own) two levels
// down: a user function that panics there unwinds through every level of the walk (seeded C11p freed the pooled validator once per level).
type Outer struct {
	Name string  `valid:"required"`
	In   *Cust   `valid:"required"`
	List []Cust  `valid:"exist"`
	Mid  *Middle `valid:"exist"`
}

type Middle struct {
	Leaf Cust `valid:"exist"`
}

func mkOuter(v int) interface{} {
	o := &Outer{Name: []string{"", "o"}[v%2]}
	mk := func(i int) Cust { return Cust{Name: strN(1 + i%4), Code: strN(i % 4), Age: i % 5} }
	if v%3 != 0 {
		c := mk(v)
		o.In = &c
	}
	for i := 0; i < v%3; i++ {
		o.List = append(o.List, mk(v+i+1))
	}
	if v%4 >= 2 {
		o.Mid = &Middle{Leaf: mk(v + 2)}
	}
	return o
}

func init() {
	statics = append(statics,
		typeInfo{"Link", mkLink, []string{"", "v2"}},
		typeInfo{"Outer", mkOuter, []string{""}})
}

// BadTag: struct tags that are legal Go but not in key:"value" form for the tag names validated with (only vet objects; the
// library ignores them). Seeded C08q reported them - once per cache miss.
type BadTag struct {
	Name string `valid:required json:"name"`
	Code string `json:"code" valid: "required"`
	Age  int    `valid:"ge=1" v2:to=1~3`
	Note string `v2:"required" valid`
}

func init() {
	statics = append(statics, typeInfo{"BadTag", func(v int) interface{} {
		return &BadTag{Name: strN(v % 3), Code: strN(v % 2), Age: v % 4, Note: strN(v % 2)}
	}, []string{"", "v2"}})
}

// DupTag: struct tags that repeat a key inside one field literal (legal Go; only vet objects). reflect.StructTag.Get
// returns the FIRST occurrence; code that scans the literal itself may keep another one (seeded C08x stored sibling
// cache entries from a hand-copied scanner that kept the last).
type DupTag struct {
	Name string `valid:"required" v2:"required" v2:"to=5~10"`
	Code string `valid:"le=2" json:"code" valid:"ge=9"`
	Age  int    `v2:"ge=3" json:"age" v2:"le=1" valid:"to=1~3" valid:"ge=100"`
}

func init() {
	statics = append(statics, typeInfo{"DupTag", func(v int) interface{} {
		return &DupTag{Name: strN(v % 4), Code: strN((v / 2) % 4), Age: v % 6}
	}, []string{"", "v2"}})
}

// CaseTag carries rules under two tag names that differ only in the case of a letter (struct tag keys are case-sensitive).
type CaseTag struct {
	Name string `valid:"required" Valid:"to=1~3"`
	Note string `valid:"required" Valid:"le=1"`
	Code string `VALID:"required"`
}

func init() {
	statics = append(statics, typeInfo{"CaseTag", func(v int) interface{} {
		return &CaseTag{Name: strN(v % 6), Note: strN((v / 2) % 3), Code: strN(v % 2)}
	}, []string{"", "Valid", "VALID"}})
}

// Tree / Branch and Org / Dep: pairs of struct types that refer to each other (a cycle in the TYPE graph; the values are
// acyclic). Whatever the library derives per type while walking such a graph (a "can this type fail" flag, a "recursive" mark)
// must not depend on which of the two it met first: both are roots of calls here, in either order, under two tag names. In Org
// values one Dep is reachable through two paths (Main and Extra[0] are the same pointer). Seeded C12za cached the intermediate
// answer for the inner type of a cycle as final; seeded C08za flagged only the type at which its walk closed the cycle.
type Tree struct {
	Branches []*Branch `valid:"exist" v2:"exist"`
	Name     string    `valid:"required" v2:"to=1~3"`
}

type Branch struct {
	Owner *Tree `valid:"exist" v2:"exist"`
}

type Org struct {
	Main  *Dep   `valid:"exist" v2:"exist"`
	Extra []*Dep `valid:"exist" v2:"exist"`
	Name  string `valid:"required" v2:"le=2"`
}

type Dep struct {
	Title string `valid:"required" v2:"to=2~4"`
	Org   *Org   `valid:"exist" v2:"exist"`
}

func mkTree(v int) interface{} {
	t := &Tree{Name: strN(v % 3)}
	for i := 0; i < v%4; i++ {
		t.Branches = append(t.Branches, &Branch{Owner: &Tree{Name: strN((v + i) % 2)}})
	}
	return t
}

func mkBranch(v int) interface{} {
	b := &Branch{}
	if v%5 != 0 {
		b.Owner = &Tree{Name: strN(v % 2)}
		if v%3 == 0 {
			b.Owner.Branches = []*Branch{{Owner: &Tree{Name: strN((v / 3) % 2)}}}
		}
	}
	return b
}

func mkOrg(v int) interface{} {
	o := &Org{Name: strN(v % 4)}
	if v%6 != 0 {
		o.Main = &Dep{Title: strN(v % 3)}
	}
	if v%2 == 0 && o.Main != nil {
		o.Extra = append(o.Extra, o.Main) // the same Dep through two paths
	}
	for i := 0; i < v%3; i++ {
		o.Extra = append(o.Extra, &Dep{Title: strN((v + i) % 5)})
	}
	return o
}

func mkDep(v int) interface{} {
	d := &Dep{Title: strN(v % 4)}
	if v%3 != 0 {
		d.Org = &Org{Name: strN(v % 2)}
		if v%2 == 0 {
			shared := &Dep{Title: strN((v / 2) % 2)}
			d.Org.Main, d.Org.Extra = shared, []*Dep{shared}
		}
	}
	return d
}

func init() {
	statics = append(statics,
		typeInfo{"Tree", mkTree, []string{"", "v2"}},
		typeInfo{"Branch", mkBranch, []string{"", "v2"}},
		typeInfo{"Org", mkOrg, []string{"", "v2"}},
		typeInfo{"Dep", mkDep, []string{"", "v2"}})
}
