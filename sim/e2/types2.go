package e2

// Wide exercises the built-in rules the other static types do not use, with
// values that pass, fail and are empty; several values per rule kind so that
// two clients inside the same rule at the same time work on different texts.
type Wide struct {
	Json  string   `valid:"json" v2:"required"`
	JsonM string   `valid:"json|not json"`
	Email string   `valid:"email"`
	When  string   `valid:"datetime"`
	Month string   `valid:"year2month=/"`
	Year  string   `valid:"year"`
	Ints  string   `valid:"ints"`
	IntsS []string `valid:"ints"`
	Float string   `valid:"float"`
	Pre   string   `valid:"prefix=ab"`
	Suf   string   `valid:"suffix=yz"`
	Inc   string   `valid:"include=(mid/dle)"`
	Eq    string   `valid:"eq=3"`
	NoEq  int      `valid:"noeq=3"`
	Gt    int      `valid:"gt=3"`
	Lt    []int    `valid:"lt=3"`
	ID    string   `valid:"idcard"`
	IP    string   `valid:"ip"`
	IP6   string   `valid:"ipv6"`
	Uniq  string   `valid:"unique"`
	IntF  string   `valid:"int" v2:"le=2"`
}

func pick(v, salt int, l ...string) string { return l[(v+salt)%len(l)] }

func mkWide(v int) *Wide {
	w := &Wide{
		Json:  pick(v, 0, "", `{"a":1}`, `{"a":`, `["x", 'WW`+strN(v%5)+`]`, `{"k`+strN(v%4)+`": nope}`),
		JsonM: pick(v, 1, "", `[1,2]`, `[1,2`, `{'q`+strN(v%3)+`'}`),
		Email: pick(v, 2, "", "a@b.cn", "a@b", "x"+strN(v%4)+"@@y"),
		When:  pick(v, 0, "", "2024-01-02 03:04:05", "2024-01-02", "24-1-2 3:4:5"),
		Month: pick(v, 1, "", "2024/01", "2024-01", "202401"),
		Year:  pick(v, 2, "", "2024", "24", "y"+strN(v%3)),
		Ints:  pick(v, 0, "", "1,2,3", "1,a,3", "1,,"+strN(v%3)),
		Float: pick(v, 1, "", "1.5", "1", "a.b"),
		Pre:   pick(v, 2, "", "abc", "xabc", "b"+strN(v%4)),
		Suf:   pick(v, 0, "", "wxyz", "yzw", strN(v%4)+"z"),
		Inc:   pick(v, 1, "", "amidb", "middle", "none"+strN(v%3)),
		Eq:    pick(v, 2, "", "abc", "ab", strN(v%6)),
		NoEq:  []int{0, 3, 4}[v%3],
		Gt:    []int{0, 3, 9}[(v+1)%3],
		ID:    pick(v, 0, "", "110101199003071234", "11010119900307123X", "123"+strN(v%3)),
		IP:    pick(v, 1, "", "10.0.0.1", "::1", "10.0.0."+strN(v%3)),
		IP6:   pick(v, 2, "", "::1", "10.0.0.1", "fe80::"+strN(v%2)),
		Uniq:  pick(v, 0, "", "a,b,c", "a,b,a", "x"+strN(v%2)+",x"+strN(v%2)),
		IntF:  pick(v, 1, "", "12", "1x", strN(v%3)),
	}
	switch v % 3 {
	case 1:
		w.IntsS = []string{"1", "2"}
		w.Lt = []int{1}
	case 2:
		w.IntsS = []string{"1", "b" + strN(v%3)}
		w.Lt = []int{1, 2, 3, 4}
	}
	return w
}

func init() {
	statics = append(statics, typeInfo{"Wide", func(v int) interface{} { return mkWide(v) }, []string{"", "v2"}})
}

// Node is a recursive type: deep nesting through pointers.
type Node struct {
	Name string `valid:"required,le=4" v2:"ge=2"`
	Next *Node  `valid:"exist"`
	Kids []Node `valid:"exist"`
}

func mkNode(v int) *Node {
	depth := []int{1, 3, 12, 40}[v%4]
	var head *Node
	for i := depth; i > 0; i-- {
		n := &Node{Name: strN((v + i) % 7), Next: head}
		if i%5 == 0 {
			n.Kids = []Node{{Name: strN(i % 6)}, {Name: ""}}
		}
		head = n
	}
	return head
}

// Big has long values and long collections: sizes beyond the thresholds small workloads stay under.
type Big struct {
	Text  string   `valid:"required,le=200|text too long" v2:"ge=500"`
	Words []string `valid:"unique,le=100"`
	Nums  []int    `valid:"required,lt=300"`
	Items []*Item  `valid:"exist"`
	Note  string   `valid:"exist,re='^[a-z ,]{0,300}$'"`
}

func mkBig(v int) *Big {
	b := &Big{Text: strN([]int{0, 10, 150, 260, 700}[v%5])}
	n := []int{0, 3, 70, 150}[v%4]
	for i := 0; i < n; i++ {
		b.Words = append(b.Words, "w"+strN(i%9)+string(rune('a'+i%26)))
		b.Nums = append(b.Nums, i)
	}
	if v%3 == 1 {
		b.Words = append(b.Words, b.Words...)
	}
	for i := 0; i < []int{0, 2, 64}[v%3]; i++ {
		b.Items = append(b.Items, mkItem(i+v))
	}
	b.Note = []string{"", "ok note", strN(120) + ", " + strN(150), "BAD" + strN(310)}[v%4]
	return b
}

func init() {
	statics = append(statics,
		typeInfo{"Node", func(v int) interface{} { return mkNode(v) }, []string{"", "v2"}},
		typeInfo{"Big", func(v int) interface{} { return mkBig(v) }, []string{"", "v2"}})
}
