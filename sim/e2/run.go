package e2

import (
	"fmt"
	"gitee.com/xuesongtao/protoc-go-valid/valid"
	"math/rand"
	"sort"
	"strings"

	"verifsim/detsim"
	"verifsim/simsync"
)

// CallRec is one executed call as observed by its client.
type CallRec struct {
	Client int    `json:"c"`
	Call   Call   `json:"call"`
	Got    string `json:"got"`
	Want   string `json:"want,omitempty"`
	Invoke uint64 `json:"inv"`
	Return uint64 `json:"ret"`
}

type Outcome struct {
	V            *detsim.Violation
	Res          *simsync.Result
	NonTrivial   bool
	Probes       detsim.Counter
	Faults       detsim.Counter
	Counters     detsim.Counter
	Hist         []CallRec
	ResultHash   uint64
	Inconclusive bool
}

type handed struct {
	s     string // as handed out, not copied
	clone string // detached copy taken at hand-out time
	from  Call
	err   error // the error value itself, if the string is its text: Error() is called again when the pair is compared
}

type clientState struct {
	recs       []CallRec
	handed     []handed
	mismatch   *CallRec
	mutated    string
	mutCall    Call
	changed    *handed
	tagsSeen   map[int]map[string]bool
	skipped    int
	panicsRun  int
	unrecorded int // long histories: calls executed and judged after the first 2000, not kept
}

var theOracle *Oracle

func oracle() *Oracle {
	if theOracle == nil {
		theOracle = NewOracle()
	}
	return theOracle
}

func cloneStr(s string) string { return string([]byte(s)) }

func classFor(prop string) string {
	if prop == "C11" {
		return "result-ne-solo"
	}
	return "result-ne-fresh"
}

// Run executes one plan and judges it.
func Run(p *Plan, ch simsync.Chooser) *Outcome {
	rand.Seed(1) // the global generator of math/rand restarts with every run: a library that draws from it replays
	out := &Outcome{Probes: detsim.Counter{}, Faults: detsim.Counter{}, Counters: detsim.Counter{}}
	RegisterGlobals()
	orc := oracle()
	// reference results first (direct mode, other process): no I/O happens during the simulation
	type refT struct {
		canon     string
		unordered bool
	}
	refs := make([][]refT, len(p.Clients))
	registers := false
	for c := range p.Clients {
		for _, cl := range p.Clients[c] {
			registers = registers || cl.Entry == ERegister
		}
	}
	calls := make([][]Call, len(p.Clients)) // what each client executes (Repeat unrolled)
	for c := range p.Clients {
		calls[c] = p.expanded(c)
	}
	for c := range calls {
		for _, cl := range calls[c] {
			if cl.Entry == EPar && cl.Rule%NParFam == 10 {
				parType(cl.N) // run-time types are made here, by one goroutine: during the simulation the table is only read
			}
		}
	}
	for c := range p.Clients {
		refs[c] = make([]refT, len(calls[c]))
		if registers {
			// one brand-new reference process per registration epoch (see Oracle.Epochs)
			for i, r := range orc.Epochs(p.Clients[c]) {
				refs[c][i] = refT{r.Canon, r.Unordered}
			}
			out.Counters.Add("histories_with_global_registrations", 1)
			continue
		}
		for i, cl := range calls[c] {
			canon, un := orc.Ref(cl)
			refs[c][i] = refT{canon, un}
		}
	}
	var freshV *detsim.Violation
	if p.Young && !registers {
		var all []Call
		var want []refT
		seen := map[string]bool{}
		for c := range p.Clients {
			for i, cl := range p.Clients[c] {
				if k := cl.Key(); !seen[k] {
					seen[k] = true
					all = append(all, cl)
					want = append(want, refs[c][i])
				}
			}
		}
		young := orc.Young(all)
		out.Counters.Add("references_cross_checked_against_a_young_oracle", int64(len(all)))
		for i := range all {
			if !SameResult(young[i].Canon, want[i].canon, true) {
				freshV = &detsim.Violation{Class: "reference-unstable", Sub: "history",
					Detail: fmt.Sprintf("%s, executed alone (fresh pools, always-miss cache), returns\n  %s\nin the long-lived oracle process, which has evaluated other calls before, and\n  %s\nin a brand-new process that evaluated this history's calls in reverse order: even in isolation the result depends on earlier calls",
						all[i], clip(want[i].canon), clip(young[i].Canon))}
				break
			}
		}
	}
	if freshV == nil && !registers && p.FreshAt > 0 && p.FreshAt <= len(p.Clients[0]) {
		cl := p.Clients[0][p.FreshAt-1]
		want := refs[0][p.FreshAt-1]
		got := orc.Fresh(cl)
		out.Counters.Add("references_recomputed_in_a_fresh_os_process", 1)
		if !SameResult(got, want.canon, true) && !strings.HasPrefix(want.canon, "panic:") {
			freshV = &detsim.Violation{Class: "reference-unstable", Sub: "fresh-process",
				Detail: fmt.Sprintf("%s alone in the long-lived oracle process returned %s, in a fresh OS process of its own %s", cl, clip(want.canon), clip(got))}
		}
	}
	var cache *simCache
	evictions := 0
	if p.CacheKind == CacheMapDirect {
		if !cacheTouched {
			installDirectMap()
		}
	} else if p.CacheKind == CacheLRUDirect {
		if !cacheTouched {
			installDirectLRU(p.CacheCap)
		}
	} else if p.CacheKind != CacheDefault {
		cache = installCache(p.CacheKind, p.CacheCap, p.LossPm, p.MissPm, p.FlushPm)
	} else {
		if theCache != nil {
			panic("e2: a default-cache plan must run in a fresh process")
		}
		cacheTouched = true
	}
	setShared(p.SharedArgs)
	defer setShared(false)
	if p.SharedArgs {
		out.Counters.Add("runs_with_shared_rule_and_function_tables", 1)
	}
	sim := simsync.New(ch, p.Cfg)
	cs := make([]*clientState, len(p.Clients))
	for c := range p.Clients {
		c := c
		st := &clientState{tagsSeen: map[int]map[string]bool{}}
		cs[c] = st
		sim.Go(fmt.Sprintf("client%d", c), func() {
			checkHanded := func() bool {
				for i := range st.handed {
					if st.handed[i].err != nil {
						st.handed[i].s = st.handed[i].err.Error()
					}
					if st.handed[i].s != st.handed[i].clone {
						st.changed = &st.handed[i]
						return false
					}
				}
				return true
			}
			long := len(calls[c]) > 5000
			for i, cl := range calls[c] {
				if strings.HasPrefix(refs[c][i].canon, "panic:") {
					if !p.ExecPanics {
						st.skipped++ // whether an input crashes is not the subject here (C13)
						continue
					}
					st.panicsRun++ // ... but what a crashing call leaves behind for the calls after it is (C12), and it must crash the same way in company (C11)
				}
				rec := CallRec{Client: c, Call: cl}
				rec.Invoke = simsync.Stamp()
				res := cl.Exec()
				rec.Return = simsync.Stamp()
				rec.Got = res.Canon
				if res.Unordered || refs[c][i].unordered {
					rec.Got = sortClauses(res.Canon)
				}
				if !long || len(st.recs) < 2000 {
					st.recs = append(st.recs, rec)
				} else {
					st.unrecorded++
				}
				if cl.IsStruct() && !cl.TagSeq {
					m := st.tagsSeen[cl.Type]
					if m == nil {
						m = map[string]bool{}
						st.tagsSeen[cl.Type] = m
					}
					tg := cl.Tag
					if tg == "" {
						tg = "valid"
					}
					m[tg] = true
				}
				if !SameResult(res.Canon, refs[c][i].canon, res.Unordered || refs[c][i].unordered) {
					r := rec
					r.Want = refs[c][i].canon
					st.mismatch = &r
					return
				}
				if res.Mutated != "" {
					st.mutated, st.mutCall = res.Mutated, cl
					return
				}
				if p.Prop == "C12" {
					for hi, h := range res.Handed {
						if len(h) > 0 {
							hd := handed{s: h, clone: cloneStr(h), from: cl}
							if hi == 0 && res.Err != nil {
								hd.err = res.Err
							}
							st.handed = append(st.handed, hd)
						}
					}
					if len(st.handed) > 4000 {
						if !checkHanded() {
							return
						}
						st.handed = st.handed[len(st.handed)-500:]
					}
					if i%50 == 49 && !checkHanded() {
						return
					}
				}
			}
			if p.Prop == "C12" {
				// churn the pools with further calls, then re-read everything handed out
				calls := p.Clients[c]
				for k := 0; k < p.Churn && len(calls) > 0; k++ {
					cl := calls[(k*7+3)%len(calls)]
					if cl.Entry == EDump || cl.Entry == ERegister {
						continue
					}
					if strings.HasPrefix(refs[c][(k*7+3)%len(calls)].canon, "panic:") {
						continue
					}
					cl.Exec()
				}
				checkHanded()
			}
		})
	}
	if p.Bystander > 0 {
		own := valid.NewLRU(2)
		own.SetDelCallBackFn(func(k, v interface{}) {})
		sim.Go("bystander", func() {
			for i := 0; i < p.Bystander; i++ {
				switch i % 4 {
				case 0, 1:
					own.Store("b"+fmt.Sprint(i%5), i)
				case 2:
					own.Load("b" + fmt.Sprint((i+3)%5))
				case 3:
					own.Delete("b" + fmt.Sprint((i+1)%5))
				}
			}
		})
	}
	res := sim.Run()
	out.Res = res
	h := uint64(1469598103934665603)
	overlap := false
	nrec := 0
	for _, st := range cs {
		for i := range st.recs {
			h = detsim.HashAdd(h, detsim.Hash64(st.recs[i].Got)^st.recs[i].Return)
			nrec++
		}
		nrec += st.unrecorded
		out.Counters.Add("calls_skipped_solo_panic", int64(st.skipped))
		out.Counters.Add("calls_that_panic_executed", int64(st.panicsRun))
	}
	out.ResultHash = h
	out.Counters.Add("calls", int64(nrec))
	// overlap of calls of different clients
	if len(cs) > 1 {
		var all []CallRec
		for _, st := range cs {
			all = append(all, st.recs...)
		}
		sort.Slice(all, func(i, j int) bool { return all[i].Invoke < all[j].Invoke })
		// the two latest-returning calls of distinct clients seen so far
		var r1, r2 uint64
		c1, c2 := -1, -1
		for _, r := range all {
			if (c1 >= 0 && c1 != r.Client && r.Invoke < r1) || (c2 >= 0 && c2 != r.Client && r.Invoke < r2) {
				overlap = true
				break
			}
			switch {
			case r.Client == c1:
				if r.Return > r1 {
					r1 = r.Return
				}
			case r.Return > r1:
				r2, c2 = r1, c1
				r1, c1 = r.Return, r.Client
			case r.Client == c2 || r.Return > r2:
				if r.Client != c2 || r.Return > r2 {
					r2, c2 = r.Return, r.Client
				}
			}
		}
	}
	// keep a short history for samples / violation details
	for _, st := range cs {
		for i := range st.recs {
			if len(out.Hist) < 30 {
				out.Hist = append(out.Hist, st.recs[i])
			}
		}
	}

	out.Faults.Add("F1_pool_get_fresh", int64(res.FaultGetFresh))
	out.Faults.Add("F2_pool_get_any", int64(res.FaultGetAny))
	out.Faults.Add("F3_pool_put_drop", int64(res.FaultPutDrop))
	out.Faults.Add("F4_pools_flushed", int64(res.FaultFlush))
	out.Faults.Add("F9_preemptions", int64(res.Preempt))
	out.Faults.Add("F10_pyield_switches", int64(res.PYieldSwitch))
	out.Faults.Add("F11_stall_steps", int64(res.StallSteps))
	out.Faults.Add("F14_clock_leaps", int64(res.ClockJumps))
	out.Faults.Add("F14_clock_equal_readings", int64(res.ClockTies))
	out.Counters.Add("clock_readings", int64(res.ClockReads))
	out.Counters.Add("sleeps", int64(res.Sleeps))
	out.Counters.Add("simulated_clock_us", res.SimNanos/1000)
	out.Probes.Add("pool_object_crossed_clients", int64(res.PoolCross))
	out.Probes.Add("pool_recycled_object", int64(res.PoolGetHit))
	out.Probes.Add("pool_double_put", int64(res.PoolDouble))
	out.Probes.Add("parked_on_held_lock", int64(res.LockWaits))
	out.Counters.Add("cache_"+p.CacheKind, 1)
	var tot cacheCounters
	if cache != nil {
		tot = cache.Totals()
		evictions = tot.Evict
		out.Faults.Add("F5_cache_store_lost", int64(tot.FLost))
		out.Faults.Add("F6_cache_load_miss", int64(tot.FMiss))
		out.Faults.Add("F7_cache_flushed", int64(tot.FFlush))
		out.Probes.Add("cache_hits", int64(tot.Hits))
		out.Probes.Add("cache_misses", int64(tot.Misses))
		out.Probes.Add("cache_evictions", int64(evictions))
		if p.CacheKind == CacheLRU && p.CacheCap == 0 && tot.Stores > 0 {
			out.Probes.Add("capacity0_store", 1)
		}
	}
	multiTag := 0
	distinctTypes := map[int]bool{}
	for _, st := range cs {
		for t, m := range st.tagsSeen {
			distinctTypes[t] = true
			if len(m) > 1 {
				multiTag++
			}
		}
	}
	out.Probes.Add("type_seen_under_2_tags", int64(multiTag))
	if len(distinctTypes) > 512 {
		out.Probes.Add("more_than_512_distinct_types", 1)
	}

	// verdicts
	cls := classFor(p.Prop)
	switch {
	case len(res.Panics) > 0:
		out.V = &detsim.Violation{Class: "panic", Sub: "harness-level", Detail: strings.Join(res.Panics, " | ")}
	case res.Deadlock:
		out.V = &detsim.Violation{Class: "deadlock", Detail: res.DeadlockMsg}
	case res.StepCapHit:
		out.Inconclusive = true
		return out
	}
	if out.V == nil {
		for _, st := range cs {
			if st.mismatch != nil {
				m := st.mismatch
				sub := mismatchSub(orc, m)
				out.V = &detsim.Violation{Class: cls, Sub: sub,
					Detail: fmt.Sprintf("client %d, %s under cache=%s/%d pool=%d:\n  got : %s\n  want: %s (the same call alone, fresh pools, always-miss cache)", m.Client, m.Call, p.CacheKind, p.CacheCap, p.Cfg.Pool, clip(m.Got), clip(m.Want))}
				break
			}
			if st.mutated != "" {
				out.V = &detsim.Violation{Class: "input-mutated", Sub: st.mutCall.Entry, Detail: fmt.Sprintf("%s: %s", st.mutCall, st.mutated)}
				break
			}
			if st.changed != nil {
				out.V = &detsim.Violation{Class: "handed-out-string-changed", Sub: st.changed.from.Entry,
					Detail: fmt.Sprintf("a string returned by %s read %q when handed out and reads %q now", st.changed.from, clip(st.changed.clone), clip(st.changed.s))}
				break
			}
		}
	}
	if out.V == nil && freshV != nil {
		out.V = freshV
	}
	if out.V == nil && nrec > 0 && !registers {
		// the reference must not have hidden state either: ask once more for a sample
		last := cs[0].recs
		if len(last) > 0 {
			cl := last[(len(last)*7)/11].Call
			if changed, was, now := orc.Recheck(cl); changed {
				out.V = &detsim.Violation{Class: "reference-unstable", Sub: cl.Entry,
					Detail: fmt.Sprintf("%s alone in the oracle process returned %s earlier and %s now: state survives between independent calls", cl, clip(was), clip(now))}
			}
		}
	}
	switch p.Prop {
	case "C08":
		second := multiTag > 0
		if cache != nil {
			out.NonTrivial = tot.Hits > 0 && (evictions > 0 || tot.FLost+tot.FMiss+tot.FFlush > 0 || second)
		} else {
			out.NonTrivial = second || len(distinctTypes) > 512
		}
	case "C12":
		// a recycled object met a second call - or the library takes nothing from a sync.Pool at all (then a history of two calls is all there is to it)
		out.NonTrivial = nrec >= 2 && (res.PoolGetHit > 0 || res.PoolGetHit+res.PoolGetNew == 0)
	case "C11":
		out.NonTrivial = overlap && (res.PoolCross > 0 || (cache != nil && tot.Hits > 0))
	}
	if overlap {
		out.Probes.Add("calls_overlapped", 1)
	}
	return out
}

// sortClauses gives the order-insensitive form of an error text whose clause order is unspecified.
func sortClauses(canon string) string {
	if !strings.HasPrefix(canon, "err:") {
		return canon
	}
	l := strings.Split(canon[4:], "; ")
	sort.Strings(l)
	return "err:" + strings.Join(l, "; ")
}

func clip(s string) string {
	if len(s) > 400 {
		return s[:400] + "..."
	}
	return s
}

// mismatchSub names the kind of mismatch: does the result equal what the
// same value gets under another tag name, rule set or function set?
func mismatchSub(orc *Oracle, m *CallRec) string {
	if strings.HasPrefix(m.Got, "panic:") {
		return "panic"
	}
	c := m.Call
	if c.IsStruct() {
		tags := []string{"", "v2", "alipay", "wechat"}
		for _, tg := range tags {
			if tg == c.Tag || (tg == "" && c.Tag == "valid") {
				continue
			}
			d := c
			d.Tag = tg
			if d.Entry == EStruct || d.Entry == ENested {
				d.Entry = EStructForFn
			}
			if canon, un := orc.Ref(d); SameResult(m.Got, canon, un) && !SameResult(m.Want, canon, un) {
				return "other-tag-rules"
			}
		}
		for r := 0; r < len(ruleSets); r++ {
			for f := 0; f < NFnSets; f++ {
				if r == c.Rule && f == c.Fn {
					continue
				}
				d := c
				d.Rule, d.Fn = r, f
				if d.Entry != EStructForFns {
					d.Entry = EStructForFns
				}
				if canon, un := orc.Ref(d); SameResult(m.Got, canon, un) && !SameResult(m.Want, canon, un) {
					return "other-call-override"
				}
			}
		}
	}
	if strings.HasPrefix(m.Got, "err:") && strings.HasPrefix(m.Want, "err:") {
		if strings.Contains(m.Got, m.Want[4:]) {
			return "extra-text"
		}
	}
	if m.Got == "nil" {
		return "error-lost"
	}
	return "other"
}
