// Package alt holds struct types whose NAMES equal those of types in package
// e2 (Pay, User, Item) but whose rules differ: a cache keyed by the type's
// name instead of its identity would confuse them.
package alt

type Pay struct {
	AppName string  `alipay:"le=2" wechat:"required,ge=4" valid:"le=3"`
	Amount  float64 `alipay:"ge=9" wechat:"le=1" valid:"required"`
	Note    string  `valid:"required,ge=2"`
}

type User struct {
	Name  string `valid:"le=1" v2:"required,ge=5"`
	Age   int    `valid:"required,ge=100" v2:"le=10"`
	Phone string `valid:"required"`
	Email string `v2:"required,email"`
}

type Item struct {
	Code  string `valid:"ge=5" v2:"required"`
	Count int    `valid:"required,le=1"`
	Name  string `valid:"required"`
}
