package e2

import (
	"fmt"
	"math"
	"reflect"
	"regexp"
	"sort"
	"strings"

	"gitee.com/xuesongtao/protoc-go-valid/valid"

	"verifsim/simsync"
)

func isAbort(r interface{}) bool { return simsync.IsAbort(r) }

// Call is a descriptor: executing it builds fresh arguments every time.
type Call struct {
	Entry  string `json:"e"`
	Type   int    `json:"t,omitempty"` // static type index, or 1000+i for dynamic type i
	Val    int    `json:"v,omitempty"`
	Tag    string `json:"tag,omitempty"`
	Rule   int    `json:"r,omitempty"`
	Fn     int    `json:"f,omitempty"`
	Shape  int    `json:"s,omitempty"`       // 0 pointer, 1 value, 2 slice of pointers, 3 map of pointers, 4 array of values, 5 typed nil pointer, 6 nil
	Keep   bool   `json:"keep_rm,omitempty"` // the rule map is ONE object per client, edited in place from call to call (as a package-level RM would be), not built afresh
	TagSeq bool   `json:"tag_seq,omitempty"` // repeated calls (Plan.Repeat): the tag name gets the iteration number appended - a tag name nobody has used before, every time
	U      string `json:"u,omitempty"`       // histories with global registrations: the suffix that makes this history's rule names unique in the process
	N      int    `json:"n,omitempty"`       // EPar: the number the rule text / tag name / key / struct type is made from
}

const (
	EStruct       = "Struct"
	EStructForFn  = "StructForFn"
	EStructForFns = "StructForFns"
	ENested       = "NestedStructForRule"
	EValidate     = "ValidateStruct"
	ERuleFirst    = "ValidStructForRule"
	EMyFn         = "ValidStructForMyValidFn"
	EChain        = "NewVStruct.SetRule.SetRule.Valid"           // the builder API used directly: the second SetRule for the same target replaces the first
	EVarChain     = "NewVVar.SetRules.SetRules.SetValidFn.Valid" // the builder API used directly: rules accumulate
	// ERegister registers a NEW global validation function in the middle of a history (valid.SetCustomerValidFn with a
	// name nobody used before): calls after it must see it, whatever happened before it. Single-client histories only.
	ERegister = "SetCustomerValidFn"
	EVarG     = "Var(rule registered globally in this history)"
	EVar      = "Var"
	EVarForFn = "VarForFn"
	EMap      = "Map"
	EMapFn    = "MapFn"
	EUrl      = "Url"
	EUrlForFn = "UrlForFn"
	EExplain  = "GetOnlyExplainErr"
	EGenKV    = "GenValidKV"
	ESplit    = "ValidNamesSplit"
	EDump     = "GetDumpStructStr"
)

const (
	EDumpJson = "GetDumpStructStrForJson"
	EEscape   = "StrEscape"
	ETimeFmt  = "GetTimeFmt"
	EParseKV  = "ParseValidNameKV"
	// EHelper: the exported helpers the documentation recommends for custom validation functions (GetJoinValidErrStr with
	// and without trailing texts, GetJoinFieldErr, CheckFieldIsStr, ToStr, JoinTag2Val) and built-in rule functions called
	// directly with a builder of the caller's own.
	EHelper = "exported helper"
	// EMapRetry / EUrlRetry: the builder objects used twice - the first Valid ends with one of the early errors (nil source, no
	// rules yet, a source that is not a string), the caller then supplies what was missing and calls Valid again on the same
	// object (seeded C11q released the pooled buffer on the early return and kept using it).
	EMapRetry = "NewVMap.Valid(early error).SetRule.Valid"
	EUrlRetry = "NewVUrl.Valid(early error).SetRule.Valid"
)

// EmptyTag in Call.Tag: the empty string is passed as the tag name (Call.Tag == "" means: no tag name is passed).
const EmptyTag = "<empty>"

const NHelpers = 14

func (c Call) helper() (s string) {
	var b strings.Builder
	switch c.Val % NHelpers {
	case 0:
		return valid.GetJoinValidErrStr("Obj", "Field", "in")
	case 1:
		return valid.GetJoinValidErrStr("Obj", "", "in", "x")
	case 2:
		return valid.GetJoinValidErrStr("", "Field", "in", "说明: a", "b")
	case 3:
		return valid.GetJoinValidErrStr("", "", "")
	case 4:
		return valid.GetJoinFieldErr("Obj", "Field", "text")
	case 5:
		return valid.GetJoinFieldErr("", "", fmt.Errorf("an error"))
	case 6:
		return valid.GetJoinFieldErr("Obj", "Field", 42)
	case 7:
		if err := valid.CheckFieldIsStr("Obj", "Field", reflect.ValueOf(7)); err != nil {
			return err.Error()
		}
		return ""
	case 8:
		return valid.ToStr(int8(-3)) + valid.ToStr(2.50) + valid.ToStr([]byte("bytes")) + valid.ToStr(nil) + valid.ToStr(struct{ A int }{1}) + valid.ToStr(true)
	case 9:
		return valid.JoinTag2Val("to", "1~3", "msg") + valid.JoinTag2Val("required")
	case 10:
		valid.To(&b, "to=1~3", "Obj", "Field", reflect.ValueOf("abcdef"))
	case 11:
		valid.Le(&b, "le=2|too long", "Obj", "Field", reflect.ValueOf([]int{1, 2, 3}))
	case 12:
		valid.Phone(&b, "phone", "Obj", "Field", reflect.ValueOf("123"))
		valid.In(&b, "in=(a/b)", "Obj", "Field", reflect.ValueOf("c"))
	case 13:
		valid.Datetime(&b, "datetime=(/, ,:)", "Obj", "Field", reflect.ValueOf("2024-01-02 10:00:00"))
		valid.Unique(&b, "unique", "Obj", "Field", reflect.ValueOf([]string{"a", "a"}))
	}
	return b.String()
}

var escapeInputs = []string{"", "plain", "it's \"quoted\"\n", strings.Repeat("a'b\\", 30), strings.Repeat("long \"text\" ", 12), strings.Repeat("x", 129), strings.Repeat("'y'", 90), "tab\tand\x00nul\x1a"}

var timeFmtSeps = [][]string{nil, {"/"}, {"-", " "}, {"", "", ""}, {"-", " ", ":"}, {"- ", "", ":"}, {"", " ", ""}, {" ", "", ""}, {"/", ",", "/"}, {".", "T", "."}}

var parseKVInputs = []string{"required", "required|必填", "to=1~3|between", "re='^a|b$'|alt", "in=(a/b)|", "le=3|x", "=|", "a=b=c|d|e", ""}

var structEntries = []string{EStruct, EStructForFn, EStructForFns, ENested, EValidate, ERuleFirst, EMyFn, EChain}

func (c Call) IsStruct() bool {
	for _, e := range structEntries {
		if c.Entry == e {
			return true
		}
	}
	return false
}

func (c Call) String() string {
	s := c.Entry + "(" + typeName(c.Type) + fmt.Sprintf("#%d", c.Val)
	if c.Shape != 0 {
		s += fmt.Sprintf(" shape%d", c.Shape)
	}
	if c.Tag != "" {
		s += " tag=" + c.Tag
	}
	if c.Rule != 0 {
		s += fmt.Sprintf(" rule%d", c.Rule)
	}
	if c.Fn != 0 {
		s += fmt.Sprintf(" fn%d", c.Fn)
	}
	if c.Entry == EPar {
		return fmt.Sprintf("parametric(%s, n=%d, %s)", parFamName(c.Rule), c.N, []string{"accepted alone", "rejected alone"}[c.Val%2])
	}
	return s + ")"
}

func (c Call) Key() string {
	if c.N != 0 {
		return fmt.Sprintf("%s|%d|%d|%s|%d|%d|%d|%s|n%d", c.Entry, c.Type, c.Val, c.Tag, c.Rule, c.Fn, c.Shape, c.U, c.N)
	}
	return fmt.Sprintf("%s|%d|%d|%s|%d|%d|%d|%s", c.Entry, c.Type, c.Val, c.Tag, c.Rule, c.Fn, c.Shape, c.U)
}

// gName is the j-th global rule name of the history with suffix u.
func gName(u string, j int) string { return fmt.Sprintf("zzg%s_%d", u, j) }

// per-history struct types whose tag names a rule of that history: struct{ Code string `valid:"<gName>"`; Name string `valid:"required,le=3"` }
var perRunTypes = map[string]reflect.Type{}

func perRunType(u string, j int) reflect.Type {
	k := gName(u, j)
	if t, ok := perRunTypes[k]; ok {
		return t
	}
	t := reflect.StructOf([]reflect.StructField{
		{Name: "Code", Type: reflect.TypeOf(""), Tag: reflect.StructTag(`valid:"` + k + `" v2:"required,` + k + `"`)},
		{Name: "Name", Type: reflect.TypeOf(""), Tag: `valid:"required,le=3" v2:"le=1"`},
	})
	if len(perRunTypes) > 20000 {
		perRunTypes = map[string]reflect.Type{}
	}
	perRunTypes[k] = t
	return t
}

func perRunValue(u string, j, v int) interface{} {
	p := reflect.New(perRunType(u, j))
	p.Elem().Field(0).SetString(strN(v % 5))
	p.Elem().Field(1).SetString(strN((v / 5) % 6))
	return p.Interface()
}

func typeName(t int) string {
	if t >= 3000 {
		return fmt.Sprintf("history-type%d", t-3000)
	}
	if t >= 1000 {
		return fmt.Sprintf("dyn%d", t-1000)
	}
	if t >= 0 && t < len(statics) {
		return statics[t].name
	}
	return fmt.Sprint("type", t)
}

func mkValue(t, v int) interface{} {
	if t >= 1000 {
		return dynValue(t-1000, v)
	}
	return statics[t%len(statics)].mk(v)
}

// args are the freshly built arguments of one execution.
type args struct {
	src      interface{}
	rule     valid.RM
	rule2    valid.RM // EChain: the rule map of the second SetRule
	ruleArgs []string // rule set 7: the slice that was spread into RM.Set, kept by the caller
	fns      valid.Name2FnMap
	nest     map[interface{}]valid.RM
	rules    []string
	str      string
	strs     []string
	// Unordered: the call iterates a Go map with more than one entry (or has
	// >= 2 either/botheq groups): clause order is unspecified
	unordered bool
}

var varRules = [][]string{
	{"required"},
	{"required", "to=1~3"},
	{"in=(1/2/3)"},
	{"phone"},
	{"unique"},
	{"even"},
	{"odd"},
	{"ge=2|too small"},
	{"required|'必须,填写'", "le=2"},
	{"include=(ab/cd)"},
	{"either=1"},
	{"int", "le=100"},
	{"required", "", "to=1~3"}, // an empty rule among the rules is skipped
	{"", "", "le=2", ""},
}

var varVals = []func() interface{}{
	func() interface{} { return "" },
	func() interface{} { return "ab" },
	func() interface{} { return "13812345678" },
	func() interface{} { return 2 },
	func() interface{} { return 7 },
	func() interface{} { return []int{1, 2, 2} },
	func() interface{} { return []string{"a", "b"} },
	func() interface{} { return 1.5 },
	func() interface{} { s := "xabx"; return &s },
	func() interface{} { return struct{}{} },
	func() interface{} { return []int{} },
}

var urls = []string{
	"http://h/p?name=ab&age=3&code=",
	"http://h/p?name=&age=300&code=zzzzzz&phone=123",
	"http://h/p",
	"http://h/p?name=%zz",
	"http://h/p?orderno=&tradeno=&name=abcdefgh",
	"http://h/p?orderno=1&tradeno=&pass=a&pass2=b",
}

var urlRules = []map[string]string{
	{"name": "required,le=3", "age": "int", "code": "required"},
	{"name": "required|name please", "phone": "phone", "age": "even"},
	{"orderno": "either=1", "tradeno": "either=1", "name": "le=4"},
	{"orderno": "either=1", "tradeno": "either=1", "pass": "botheq=2", "pass2": "botheq=2"},
	{"code": "odd", "name": "exist"},
}

var splitInputs = []string{
	"required,to=1~3",
	"required|必填,phone|'手机号码必填,同时正确',re='\\d+{1,2}'",
	"in=(a,b/c)|'x,y',le=3",
	"re='^a,b$'",
	"'a,b','c',d",
	"",
	"a,,b,",
	"required|'a,b',in=(x,y/z)|'p,q',le=3",
}

var explainInputs = []string{
	"",
	`"User.Name" input "", explain: it is required; "User.Age" input "300", explain: it is more than 120 num-size`,
	`"A.B" input "x", 说明: 不对; "A.C" input "y", explain: bad`,
	"no explanation here",
	`"Misc.Phone" input "1", 说明: 手机号不对`,
}

var genKV = [][]string{
	{"to", "1~10", "需要在 1-10 的区间"},
	{"re", "\\d+", "必须为纯数字"},
	{"in", "1/2/3"},
	{"required"},
	{"include", "ab/cd", "must include"},
	{"le", "=3"},
	{"re", "'^a$'"},
}

func mapKeys(m map[string]string) []string {
	ks := make([]string, 0, len(m))
	for k := range m {
		ks = append(ks, k)
	}
	sort.Strings(ks)
	return ks
}

func rmOf(m map[string]string) valid.RM {
	rm := valid.NewRule()
	for _, k := range mapKeys(m) {
		rm.Set(k, m[k])
	}
	return rm
}

func countGroups(m map[string]string) int {
	g := map[string]bool{}
	for _, r := range m {
		for _, p := range strings.Split(r, ",") {
			if strings.HasPrefix(p, "either") || strings.HasPrefix(p, "botheq") {
				g[p] = true
			}
		}
	}
	return len(g)
}

// sharedMode (set by Run for the duration of one run, see Plan.SharedArgs): rule maps and function tables are package-level
// objects shared by every call of every client, as a service that keeps `var rules = valid.RM{...}` next to its handlers does.
var sharedMode bool
var sharedRules []valid.RM
var sharedFns []valid.Name2FnMap

func setShared(on bool) {
	sharedMode = on
	sharedRules, sharedFns = nil, nil
	if on {
		for i := range ruleSets {
			sharedRules = append(sharedRules, mkRule(i))
		}
		for i := 0; i < NFnSets; i++ {
			sharedFns = append(sharedFns, mkFns(i))
		}
	}
}

func (c Call) build() *args { return c.buildMode(sharedMode) }

func (c Call) buildMode(shared bool) *args {
	a := c.buildFresh()
	if shared && !c.Keep && c.Rule != 7 && c.Type < 3000 && (c.IsStruct() || c.Entry == EMapFn || c.Entry == EVarChain) {
		if c.IsStruct() && a.rule != nil && c.Rule > 0 && c.Rule < len(sharedRules) {
			a.rule = sharedRules[c.Rule]
		}
		if a.fns != nil && c.Fn > 0 && c.Fn < len(sharedFns) {
			a.fns = sharedFns[c.Fn]
		}
	}
	return a
}

func (c Call) buildFresh() *args {
	a := &args{}
	switch {
	case c.Type >= 3000 && c.IsStruct():
		a.src = perRunValue(c.U, c.Type-3000, c.Val)
		a.rule = mkRule(c.Rule)
		a.fns = mkFns(c.Fn)
	case c.Entry == ERegister:
	case c.Entry == EVarG:
		a.src = varVals[c.Val%len(varVals)]()
		a.rules = []string{gName(c.U, c.Rule)}
	case c.Entry == EDumpJson:
		if c.Shape == 1 {
			a.src = mkOdd(c.Val) // a value encoding/json cannot encode
		} else {
			x := mkValue(c.Type, c.Val)
			trimMaps(x)
			a.src = x
		}
	case c.IsStruct() || c.Entry == EDump:
		mkv := func(i int) interface{} {
			x := mkValue(c.Type, i)
			if c.Entry == EDump {
				trimMaps(x)
			}
			return x
		}
		v := mkv(c.Val)
		shape := c.Shape
		if tn := typeName(c.Type); shape == 3 && (tn == "Pair" || tn == "OnePair") {
			// an either/botheq group spans the entries of the outer map and would
			// name its fields in Go's map iteration order
			shape = 2
		}
		if typeName(c.Type) == "Chain" && shape > 1 {
			shape = 0 // values of different depths have different Go types: no slice / map / array of them
		}
		if c.Entry == EDump {
			// the dump text lists map entries in iteration order: one entry per map only
			if shape == 3 {
				shape = 2
			}
			trimMaps(v)
		}
		switch shape {
		case 5:
			a.src = reflect.Zero(reflect.TypeOf(v)).Interface() // a typed nil pointer
		case 6:
			a.src = nil
		case 0:
			a.src = v
		case 1:
			a.src = reflect.ValueOf(v).Elem().Interface()
		case 2:
			rv := reflect.ValueOf(v)
			s := reflect.MakeSlice(reflect.SliceOf(rv.Type()), 0, 3)
			s = reflect.Append(s, rv, reflect.ValueOf(mkv(c.Val+1)), reflect.ValueOf(mkv(c.Val+2)))
			a.src = s.Interface()
		case 3:
			rv := reflect.ValueOf(v)
			m := reflect.MakeMap(reflect.MapOf(reflect.TypeOf(""), rv.Type()))
			m.SetMapIndex(reflect.ValueOf("a"), rv)
			m.SetMapIndex(reflect.ValueOf("b"), reflect.ValueOf(mkv(c.Val+1)))
			a.src = m.Interface()
			a.unordered = true
		case 4:
			rv := reflect.ValueOf(v).Elem()
			arr := reflect.New(reflect.ArrayOf(2, rv.Type())).Elem()
			arr.Index(0).Set(rv)
			arr.Index(1).Set(reflect.ValueOf(mkv(c.Val + 3)).Elem())
			a.src = arr.Interface()
		}
		a.rule = mkRule(c.Rule)
		if c.Keep && a.rule != nil && c.Rule != 7 {
			a.rule = keptRule(a.rule)
		}
		if c.Rule == 7 {
			a.ruleArgs = multiSetRules()
			a.rule = valid.NewRule().Set("Name,Code", a.ruleArgs...)
		}
		a.fns = mkFns(c.Fn)
		if c.Entry == EChain {
			a.rule2 = mkRule(1 + (c.Rule+c.Val)%(len(ruleSets)-1))
		}
		if c.Entry == ENested {
			a.nest = map[interface{}]valid.RM{}
			if c.Rule != 0 && c.Fn%3 == 1 {
				// exactly ONE entry, keyed by a concrete type (seeded C12r cleared a one-entry rule map by deleting the outer-object key only)
				switch c.Val % 3 {
				case 0:
					a.nest[&Item{}] = mkRule(c.Rule)
				case 1:
					a.nest[&User{}] = mkRule(1 + c.Rule%3)
				default:
					a.nest[mkValue(c.Type, 0)] = mkRule(c.Rule)
				}
			} else if c.Rule != 0 {
				a.nest[&Item{}] = mkRule(c.Rule)
				a.nest[&User{}] = mkRule(1 + c.Rule%3)
				a.nest[&Plain{}] = mkRule(1 + (c.Rule+1)%3) // a type that carries no rule of its own
				// one rule set per struct type: two keys of the same type would make
				// the effective rule depend on Go's map iteration order
				if tn := typeName(c.Type); c.Type < 1000 && tn != "Item" && tn != "User" && tn != "Plain" {
					a.nest[statics[c.Type%len(statics)].mk(0)] = mkRule(c.Rule)
				}
			}
		}
		// types with two either/botheq groups, or multi-entry map fields
		switch typeName(c.Type) {
		case "Pair":
			a.unordered = true
		case "Cart", "Deep":
			a.unordered = true
		}
	case c.Entry == EVar || c.Entry == EVarForFn || c.Entry == EVarChain:
		a.src = varVals[c.Val%len(varVals)]()
		a.rules = append([]string(nil), varRules[c.Rule%len(varRules)]...)
		if c.Entry == EVarChain {
			a.strs = append([]string(nil), varRules[(c.Rule+1+c.Val)%len(varRules)]...)
			a.fns = mkFns(c.Fn)
		}
	case c.Entry == EMap || c.Entry == EMapFn || c.Entry == EMapRetry:
		// 1..3 entries, all with the same value and the same rule
		n := 1 + c.Val%3
		if c.Rule%6 == 5 {
			n = 1 // an either group over several map keys would name them in iteration order
		}
		val := []interface{}{"", "abc", "13812345678", 5, 8}[c.Val%5]
		rule := []string{"required", "required,le=2", "phone", "even", "ge=6|small", "either=1"}[c.Rule%6]
		switch c.Shape % 3 {
		case 0:
			m := map[string]interface{}{}
			a.rule = valid.NewRule()
			for i := 0; i < n; i++ {
				k := string(rune('a' + i))
				m[k] = val
				a.rule.Set(k, rule)
			}
			a.src = m
		case 1:
			m := map[string]string{}
			a.rule = valid.NewRule()
			for i := 0; i < n; i++ {
				k := string(rune('a' + i))
				m[k] = fmt.Sprint(val)
				a.rule.Set(k, rule)
			}
			a.src = m
		case 2:
			a.rule = valid.NewRule()
			l := []map[string]string{}
			for i := 0; i < n; i++ {
				l = append(l, map[string]string{"a": fmt.Sprint(val)})
			}
			a.rule.Set("a", rule)
			a.src = l
		}
		if c.Rule%7 == 6 {
			a.rule = nil // "have no set rules"
		}
		a.fns = mkFns(c.Fn)
		a.unordered = n > 1
	case c.Entry == EUrl || c.Entry == EUrlForFn || c.Entry == EUrlRetry:
		a.str = urls[c.Val%len(urls)]
		a.src = a.str
		if c.Shape == 1 {
			s := a.str
			a.src = &s
		}
		rs := urlRules[c.Rule%len(urlRules)]
		a.rule = rmOf(rs)
		a.unordered = countGroups(rs) > 1
	case c.Entry == EExplain:
		a.str = explainInputs[c.Val%len(explainInputs)]
	case c.Entry == EGenKV:
		a.strs = append([]string(nil), genKV[c.Val%len(genKV)]...)
	case c.Entry == ESplit:
		a.str = splitInputs[c.Val%len(splitInputs)]
	case c.Entry == EEscape:
		a.str = escapeInputs[c.Val%len(escapeInputs)]
	case c.Entry == ETimeFmt:
		a.strs = append([]string(nil), timeFmtSeps[c.Val%len(timeFmtSeps)]...)
	case c.Entry == EParseKV:
		a.str = parseKVInputs[c.Val%len(parseKVInputs)]
	}
	return a
}

func trimMaps(v interface{}) {
	one := func(c *Cart) {
		if c != nil && len(c.ByKey) > 1 {
			c.ByKey = map[string]*Item{"b": c.ByKey["b"]}
		}
	}
	switch x := v.(type) {
	case *Cart:
		one(x)
	case *Deep:
		one(x.Cart)
	}
}

// Result of one execution.
type Result struct {
	Canon     string // nil | err:<text> | panic:<msg> | str:<s> | list:<a>\x1f<b>
	Unordered bool
	Handed    []string // strings handed out by the call, kept WITHOUT copying
	Err       error    // the error VALUE handed out (its text is asked for again later: it must not change either)
	Mutated   string   // "" or a description of how an input was modified
}

var addrRe = regexp.MustCompile(`0x[0-9a-fA-F]+`)

func scrub(s string) string { return addrRe.ReplaceAllString(s, "0x?") }

// Exec runs the call against the real library.
func (c Call) Exec() (res Result) {
	a := c.build()
	res.Unordered = a.unordered
	defer func() {
		if r := recover(); r != nil {
			if isAbort(r) {
				panic(r)
			}
			res.Canon = "panic:" + scrub(fmt.Sprint(r))
		}
	}()
	errRes := func(err error) {
		if err == nil {
			res.Canon = "nil"
			return
		}
		s := err.Error()
		res.Handed = append(res.Handed, s)
		res.Err = err
		res.Canon = "err:" + s
	}
	tag := []string{}
	if c.Tag == EmptyTag {
		tag = []string{""}
	} else if c.Tag != "" {
		tag = []string{c.Tag}
	}
	switch c.Entry {
	case EStruct:
		if a.rule != nil {
			errRes(valid.Struct(a.src, a.rule))
		} else {
			errRes(valid.Struct(a.src))
		}
	case EStructForFn:
		errRes(valid.StructForFn(a.src, a.rule, tag...))
	case EStructForFns:
		errRes(valid.StructForFns(a.src, a.rule, a.fns, tag...))
	case ENested:
		errRes(valid.NestedStructForRule(a.src, a.nest))
	case EValidate:
		errRes(valid.ValidateStruct(a.src, tag...))
	case ERuleFirst:
		errRes(valid.ValidStructForRule(a.rule, a.src, tag...))
	case EMyFn:
		name, fn := "odd", oddFn("myfn")
		if c.Fn%2 == 1 {
			name, fn = "even", evenFn("myfn")
		}
		errRes(valid.ValidStructForMyValidFn(a.src, name, fn, tag...))
	case EChain:
		v := valid.NewVStruct(tag...)
		if a.rule != nil && c.Val%4 == 3 && c.Type < 1000 {
			// the only rule set of this validator is one for a concrete type
			errRes(v.SetRule(a.rule, mkValue(c.Type, 0)).Valid(a.src))
			break
		}
		if a.rule != nil {
			v.SetRule(a.rule)
		}
		v.SetRule(a.rule2)
		if a.fns != nil {
			for _, k := range []string{"odd", "even", "required"} {
				if f, ok := a.fns[k]; ok {
					v.SetValidFn(k, f)
				}
			}
		}
		errRes(v.Valid(a.src))
	case ERegister:
		valid.SetCustomerValidFn(gName(c.U, c.Val), evenFn("g"+fmt.Sprint(c.Val)))
		res.Canon = "nil"
	case EVarG:
		errRes(valid.Var(a.src, a.rules...))
	case EVar:
		errRes(valid.Var(a.src, a.rules...))
	case EVarChain:
		v := valid.NewVVar().SetRules(a.rules...).SetRules(a.strs...)
		for _, k := range []string{"odd", "even", "required"} {
			if f, ok := a.fns[k]; ok {
				v.SetValidFn(k, f)
			}
		}
		errRes(v.Valid(a.src))
	case EVarForFn:
		errRes(valid.VarForFn(a.src, oddFn("varfn")))
	case EMap:
		errRes(valid.Map(a.src, a.rule))
	case EMapFn:
		errRes(valid.MapFn(a.src, a.rule, a.fns))
	case EMapRetry:
		v := valid.NewVMap()
		var first error
		if c.Fn%2 == 0 {
			first = v.Valid(a.src) // no rules yet
		} else {
			first = v.Valid(nil)
		}
		if a.rule != nil {
			v.SetRule(a.rule)
		}
		second := v.Valid(a.src)
		errRes(second)
		if first != nil {
			// the early error becomes one more clause of the canonical result (clauses may be compared as a multiset)
			res.Handed = append(res.Handed, first.Error())
			if res.Canon == "nil" {
				res.Canon = "err:first Valid: " + first.Error()
			} else if strings.HasPrefix(res.Canon, "err:") {
				res.Canon += "; first Valid: " + first.Error()
			}
		}
	case EUrlRetry:
		v := valid.NewVUrl()
		var first error
		if c.Fn%2 == 0 {
			first = v.Valid([]byte(a.str)) // not a string
		} else {
			first = v.Valid(nil)
		}
		second := v.SetRule(a.rule).Valid(a.src)
		errRes(second)
		if first != nil {
			// the early error becomes one more clause of the canonical result (clauses may be compared as a multiset)
			res.Handed = append(res.Handed, first.Error())
			if res.Canon == "nil" {
				res.Canon = "err:first Valid: " + first.Error()
			} else if strings.HasPrefix(res.Canon, "err:") {
				res.Canon += "; first Valid: " + first.Error()
			}
		}
	case EUrl:
		errRes(valid.Url(a.src, a.rule))
	case EUrlForFn:
		errRes(valid.UrlForFn(a.src, "odd", oddFn("urlfn")))
	case EExplain:
		s := valid.GetOnlyExplainErr(a.str)
		res.Handed = append(res.Handed, s)
		res.Canon = "str:" + s
	case EGenKV:
		s := valid.GenValidKV(a.strs[0], a.strs[1:]...)
		res.Handed = append(res.Handed, s)
		res.Canon = "str:" + s
	case ESplit:
		l := valid.ValidNamesSplit(a.str)
		res.Handed = append(res.Handed, l...)
		res.Canon = "list:" + strings.Join(l, "\x1f")
		// the slice belongs to the caller, who may edit it (normalise, sort, ...): nobody else may ever see that
		for i := range l {
			l[i] = "edited-by-the-caller"
		}
	case EDumpJson:
		s := valid.GetDumpStructStrForJson(a.src)
		res.Handed = append(res.Handed, s)
		res.Canon = "str:" + s
	case EEscape:
		s := valid.StrEscape(a.str)
		res.Handed = append(res.Handed, s)
		res.Canon = "str:" + s
	case ETimeFmt:
		fm := []int8{valid.DateTimeFmt, valid.DateFmt, valid.YearFmt | valid.MonthFmt, valid.YearFmt, valid.HourFmt | valid.MinFmt}[c.Rule%5]
		s := valid.GetTimeFmt(fm, a.strs...)
		res.Handed = append(res.Handed, s)
		res.Canon = "str:" + s
	case EParseKV:
		k, v, m := valid.ParseValidNameKV(a.str)
		res.Handed = append(res.Handed, k, v, m)
		res.Canon = "list:" + k + "\x1f" + v + "\x1f" + m
	case EPar:
		c.execPar(&res, errRes)
	case EHelper:
		s := c.helper()
		res.Handed = append(res.Handed, s)
		res.Canon = "str:" + s
	case EDump:
		s := valid.GetDumpStructStr(a.src)
		res.Handed = append(res.Handed, s)
		res.Canon = "str:" + s
	default:
		res.Canon = "panic:unknown entry " + c.Entry
	}
	// inputs must be left as they were: compare with a twin built from the same descriptor (always a fresh one, also when
	// the call itself used the shared tables of its run)
	b := c.buildMode(false)
	switch {
	case c.Entry == EDumpJson && c.Shape == 1:
		// func / chan / NaN fields: two values built alike are never deeply equal; only the ordinary field is compared
		if a.src.(*Odd).Name != b.src.(*Odd).Name {
			res.Mutated = "the value passed in was modified"
		}
	case !reflect.DeepEqual(a.src, b.src):
		res.Mutated = fmt.Sprintf("the value passed in was modified: %s", valid.GetDumpStructStrForJson(a.src))
	case !reflect.DeepEqual(a.rule, b.rule):
		res.Mutated = fmt.Sprintf("the rule map passed in was modified: %v, built as %v", a.rule, b.rule)
	case a.ruleArgs != nil && !reflect.DeepEqual(a.ruleArgs, multiSetRules()):
		res.Mutated = fmt.Sprintf("the slice spread into RM.Set was modified: %q", a.ruleArgs)
	case !reflect.DeepEqual(a.rule2, b.rule2):
		res.Mutated = fmt.Sprintf("the rule map passed to the second SetRule was modified: %v, built as %v", a.rule2, b.rule2)
	case !reflect.DeepEqual(a.rules, b.rules) || !reflect.DeepEqual(a.strs, b.strs) || a.str != b.str:
		res.Mutated = "a string argument was modified"
	case len(a.fns) != len(b.fns) || len(a.nest) != len(b.nest):
		res.Mutated = "the function/rule table passed in was modified"
	case !sameNest(a.nest, b.nest):
		res.Mutated = "a rule map inside the table passed to NestedStructForRule was modified"
	}
	return res
}

// sameNest compares the rule maps of two NestedStructForRule tables built from the same descriptor (keys are
// pointers to fresh zero values: matched by their type).
func sameNest(a, b map[interface{}]valid.RM) bool {
	for ka, ra := range a {
		found := false
		for kb, rb := range b {
			if reflect.TypeOf(ka) == reflect.TypeOf(kb) {
				found = true
				if !reflect.DeepEqual(ra, rb) {
					return false
				}
			}
		}
		if !found {
			return false
		}
	}
	return true
}

// keptRules: one rule-map object per simulated client (and one for direct mode), brought to the wanted contents in place.
var keptRules [64]valid.RM

func keptRule(want valid.RM) valid.RM {
	i := (simsync.TaskID() + 1) % len(keptRules)
	rm := keptRules[i]
	if rm == nil {
		rm = valid.NewRule()
		keptRules[i] = rm
	}
	for k := range rm {
		if _, ok := want[k]; !ok {
			delete(rm, k)
		}
	}
	for k, v := range want {
		rm[k] = v
	}
	return rm
}

// Odd holds what encoding/json cannot encode.
type Odd struct {
	Name string
	F    func()
	C    chan int
	X    float64
}

func mkOdd(v int) interface{} {
	o := &Odd{Name: strN(v % 4)}
	switch v % 3 {
	case 0:
		o.F = func() {}
	case 1:
		o.C = make(chan int)
	default:
		o.X = math.NaN()
	}
	return o
}

// SameResult compares two canonical results; unordered ones as multisets of clauses.
func SameResult(x, y string, unordered bool) bool {
	if x == y {
		return true
	}
	if unordered && strings.HasPrefix(x, "panic:") && strings.HasPrefix(y, "panic:") {
		// which element of a Go map is reached first is unspecified, so is which of several panicking elements panics
		return true
	}
	if !unordered || !strings.HasPrefix(x, "err:") || !strings.HasPrefix(y, "err:") {
		return false
	}
	a := strings.Split(x[4:], "; ")
	b := strings.Split(y[4:], "; ")
	if len(a) != len(b) {
		return false
	}
	sort.Strings(a)
	sort.Strings(b)
	for i := range a {
		if a[i] != b[i] {
			return false
		}
	}
	return true
}
