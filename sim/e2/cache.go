package e2

import (
	"gitee.com/xuesongtao/protoc-go-valid/valid"

	"verifsim/simsync"
)

// Cache configurations (F8).
const (
	CacheDefault = "default" // the library's built-in cache; the wrapper is never installed in this process
	CacheMiss    = "always-miss"
	CacheMap     = "sync.Map"
	CacheLRU     = "lru" // with Cap
	// CacheMapDirect: a sync.Map handed to SetStructTypeCache as it is, without the fault-injecting wrapper, so that
	// the library sees every method of the map (LoadOrStore, Range, ...), as it would in production; needs a fresh process
	CacheMapDirect = "sync.Map-direct"
)

// CacheLRUDirect: a bare valid.NewLRU(Cap) handed to SetStructTypeCache, as a user would do it (the library can
// see that it is its own LRU type); needs a fresh process.
const CacheLRUDirect = "lru-direct"

func installDirectLRU(cap int) {
	if theCache != nil || cacheTouched {
		panic("e2: an lru-direct plan must run in a fresh process")
	}
	valid.SetStructTypeCache(valid.NewLRU(cap))
	cacheTouched = true
}

// installDirectMap installs a bare sync.Map (the scratch copy's, i.e. the shim's) as the type cache of this process.
func installDirectMap() {
	if theCache != nil || cacheTouched {
		panic("e2: a sync.Map-direct plan must run in a fresh process")
	}
	valid.SetStructTypeCache(new(simsync.Map))
	cacheTouched = true
}

type missCache struct{}

func (missCache) Load(interface{}) (interface{}, bool) { return nil, false }
func (missCache) Store(interface{}, interface{})       {}

type mapCache struct{ m simsync.Map }

func (c *mapCache) Load(k interface{}) (interface{}, bool) { return c.m.Load(k) }
func (c *mapCache) Store(k, v interface{})                 { c.m.Store(k, v) }

// simCache is the one object handed to valid.SetStructTypeCache (at most
// once per process). Its inner cache is replaced per run; faults F5-F7 are
// decided by the run's chooser.
type simCache struct {
	inner   valid.CacheEr
	kind    string
	cap     int
	lossPm  int // F5 Store lost
	missPm  int // F6 Load misses although stored (the entry is removed)
	flushPm int // F7 the cache is replaced by an empty one
	// counters are kept per client (slot = task id + 1) so that concurrent
	// clients never write the same word: the wrapper must add neither
	// synchronisation (it would mask races of the code under test) nor races of its own
	cnt [2048]cacheCounters
}

type cacheCounters struct {
	Hits, Misses, Stores, FLost, FMiss, FFlush, Evict int
	_                                                 [16]int
}

func (c *simCache) my() *cacheCounters { return &c.cnt[(simsync.TaskID()+1)%len(c.cnt)] }

// Totals sums the per-client counters (call after the run).
func (c *simCache) Totals() cacheCounters {
	var t cacheCounters
	for i := range c.cnt {
		t.Hits += c.cnt[i].Hits
		t.Misses += c.cnt[i].Misses
		t.Stores += c.cnt[i].Stores
		t.FLost += c.cnt[i].FLost
		t.FMiss += c.cnt[i].FMiss
		t.FFlush += c.cnt[i].FFlush
		t.Evict += c.cnt[i].Evict
	}
	return t
}

var (
	theCache     *simCache
	cacheTouched bool // any validation ran in this process before the wrapper was installed
)

func (c *simCache) newInner(kind string, cap int) valid.CacheEr {
	switch kind {
	case CacheMiss:
		return missCache{}
	case CacheMap:
		return &mapCache{}
	}
	l := valid.NewLRU(cap)
	l.SetDelCallBackFn(func(k, v interface{}) { c.my().Evict++ })
	return l
}

// installCache makes sure the wrapper is installed and resets it for a run.
func installCache(kind string, cap, lossPm, missPm, flushPm int) *simCache {
	if theCache == nil {
		if cacheTouched {
			panic("e2: the library's default cache has been used in this process; a wrapper can no longer be installed")
		}
		theCache = &simCache{}
		valid.SetStructTypeCache(theCache)
	}
	c := theCache
	*c = simCache{kind: kind, cap: cap, lossPm: lossPm, missPm: missPm, flushPm: flushPm}
	c.inner = c.newInner(kind, cap)
	return c
}

func (c *simCache) coin(pm int, label string) bool {
	if pm <= 0 || !simsync.InSim() {
		return false
	}
	return simsync.Choose(1000, label) >= 1000-pm
}

func (c *simCache) Load(k interface{}) (interface{}, bool) {
	if c.coin(c.flushPm, "F7") {
		c.inner = c.newInner(c.kind, c.cap)
		c.my().FFlush++
	}
	v, ok := c.inner.Load(k)
	if ok && c.coin(c.missPm, "F6") {
		// the entry is gone (evicted by anything): remove it for real, then miss
		switch in := c.inner.(type) {
		case *valid.LRUCache:
			in.Delete(k)
		case *mapCache:
			in.m.Delete(k)
		}
		c.my().FMiss++
		ok = false
		v = nil
	}
	if ok {
		c.my().Hits++
	} else {
		c.my().Misses++
	}
	return v, ok
}

func (c *simCache) Store(k, v interface{}) {
	if c.coin(c.lossPm, "F5") {
		c.my().FLost++
		return
	}
	c.my().Stores++
	c.inner.Store(k, v)
}
