package e2

import (
	"bufio"
	"encoding/json"
	"fmt"
	"io"
	"os"
	"os/exec"
	"strings"
)

// OracleServe is the body of "simworker oracle": the same real code, alone,
// with every pool answering fresh objects (direct mode) and an always-miss
// cache, configured that way from the first instruction of the process.
func OracleServe(in io.Reader, out io.Writer) {
	installCache(CacheMiss, 0, 0, 0, 0)
	RegisterGlobals()
	r := bufio.NewReaderSize(in, 1<<16)
	w := bufio.NewWriter(out)
	for {
		line, err := r.ReadBytes('\n')
		if len(line) > 0 {
			var c Call
			if e := json.Unmarshal(line, &c); e != nil {
				fmt.Fprintln(os.Stderr, "oracle: bad request:", e)
				os.Exit(2)
			}
			res := c.Exec()
			b, _ := json.Marshal(oracleReply{Canon: res.Canon, Unordered: res.Unordered})
			w.Write(b)
			w.WriteByte('\n')
			w.Flush()
		}
		if err != nil {
			return
		}
	}
}

type oracleReply struct {
	Canon     string `json:"c"`
	Unordered bool   `json:"u,omitempty"`
}

// Oracle is the client side, owned by a worker process.
type Oracle struct {
	bin   string
	cmd   *exec.Cmd
	in    io.WriteCloser
	out   *bufio.Reader
	memo  map[string]oracleReply
	Asked int
}

func oracleBin() string {
	if b := os.Getenv("VERIF_ORACLE_BIN"); b != "" {
		return b
	}
	// the race-instrumented worker asks a plain build of the same sources
	b := os.Args[0]
	if strings.HasSuffix(b, ".race") {
		if _, err := os.Stat(strings.TrimSuffix(b, ".race")); err == nil {
			return strings.TrimSuffix(b, ".race")
		}
	}
	return b
}

func NewOracle() *Oracle {
	return &Oracle{bin: oracleBin(), memo: map[string]oracleReply{}}
}

func (o *Oracle) start() {
	o.cmd = exec.Command(o.bin, "oracle")
	o.cmd.Stderr = os.Stderr
	o.cmd.Env = append(os.Environ(), "GORACE=halt_on_error=0")
	var err error
	if o.in, err = o.cmd.StdinPipe(); err != nil {
		panic(err)
	}
	p, err := o.cmd.StdoutPipe()
	if err != nil {
		panic(err)
	}
	o.out = bufio.NewReaderSize(p, 1<<16)
	if err := o.cmd.Start(); err != nil {
		fmt.Fprintln(os.Stderr, "e2: cannot start the oracle process:", err)
		os.Exit(2)
	}
}

func (o *Oracle) ask(c Call) oracleReply {
	if o.cmd == nil {
		o.start()
	}
	b, _ := json.Marshal(c)
	b = append(b, '\n')
	if _, err := o.in.Write(b); err != nil {
		fmt.Fprintln(os.Stderr, "e2: oracle process died:", err)
		os.Exit(2)
	}
	line, err := o.out.ReadBytes('\n')
	if err != nil {
		fmt.Fprintln(os.Stderr, "e2: oracle process died:", err)
		os.Exit(2)
	}
	var r oracleReply
	if err := json.Unmarshal(line, &r); err != nil {
		fmt.Fprintln(os.Stderr, "e2: bad oracle reply:", err)
		os.Exit(2)
	}
	o.Asked++
	return r
}

// Ref returns the reference result of a descriptor (memoised).
func (o *Oracle) Ref(c Call) (canon string, unordered bool) {
	k := c.Key()
	if r, ok := o.memo[k]; ok {
		return r.Canon, r.Unordered
	}
	r := o.ask(c)
	if len(o.memo) > 500000 {
		o.memo = map[string]oracleReply{}
	}
	o.memo[k] = r
	return r.Canon, r.Unordered
}

// Recheck asks again, bypassing the memo: an answer that changed means the
// reference itself has hidden state.
func (o *Oracle) Recheck(c Call) (changed bool, was, now string) {
	k := c.Key()
	old, ok := o.memo[k]
	if !ok {
		return false, "", ""
	}
	r := o.ask(c)
	return !SameResult(old.Canon, r.Canon, old.Unordered || r.Unordered), old.Canon, r.Canon
}

// Fresh evaluates one descriptor in a fresh OS process of its own.
func (o *Oracle) Fresh(c Call) string {
	cmd := exec.Command(o.bin, "oracle")
	b, _ := json.Marshal(c)
	cmd.Stdin = strings.NewReader(string(b) + "\n")
	cmd.Env = append(os.Environ(), "GORACE=halt_on_error=0")
	out, err := cmd.Output()
	if err != nil {
		fmt.Fprintln(os.Stderr, "e2: fresh oracle process failed:", err)
		os.Exit(2)
	}
	var r oracleReply
	if err := json.Unmarshal(out, &r); err != nil {
		fmt.Fprintln(os.Stderr, "e2: bad fresh oracle reply:", err)
		os.Exit(2)
	}
	return r.Canon
}

// Young evaluates the given descriptors in a brand-new oracle process, in REVERSE order, and returns the replies in the
// order of the argument. The long-lived oracle has evaluated thousands of other calls before; a young one has not, and
// sees these in the opposite order: if the library keeps any state from one call to the next even in isolation (a
// process-wide memo, say), the two references disagree on some descriptor.
func (o *Oracle) Young(calls []Call) []oracleReply {
	if len(calls) == 0 {
		return nil
	}
	cmd := exec.Command(o.bin, "oracle")
	var in strings.Builder
	for i := len(calls) - 1; i >= 0; i-- {
		b, _ := json.Marshal(calls[i])
		in.Write(b)
		in.WriteByte('\n')
	}
	cmd.Stdin = strings.NewReader(in.String())
	cmd.Env = append(os.Environ(), "GORACE=halt_on_error=0")
	cmd.Stderr = os.Stderr
	out, err := cmd.Output()
	if err != nil {
		fmt.Fprintln(os.Stderr, "e2: young oracle process failed:", err)
		os.Exit(2)
	}
	lines := strings.Split(strings.TrimRight(string(out), "\n"), "\n")
	if len(lines) != len(calls) {
		fmt.Fprintf(os.Stderr, "e2: young oracle answered %d of %d requests\n", len(lines), len(calls))
		os.Exit(2)
	}
	res := make([]oracleReply, len(calls))
	for i, l := range lines {
		if err := json.Unmarshal([]byte(l), &res[len(calls)-1-i]); err != nil {
			fmt.Fprintln(os.Stderr, "e2: bad young oracle reply:", err)
			os.Exit(2)
		}
	}
	return res
}

// Epochs computes the references of a single-client history that registers global functions on its way. The result of
// a call may depend on the functions registered BEFORE it and on nothing else, so every epoch (the calls between two
// registrations) is evaluated in a brand-new process that first performs the registrations in effect and then sees
// only that epoch's calls: what an earlier epoch did (a failed lookup of a name that was not registered yet, say)
// cannot reach it.
func (o *Oracle) Epochs(calls []Call) []oracleReply {
	res := make([]oracleReply, len(calls))
	var regs []Call
	start := 0
	flush := func(end int) {
		if end > start {
			batch := append(append([]Call(nil), regs...), calls[start:end]...)
			// Young evaluates in reverse order of its argument: hand it the reversed batch to get plan order
			rev := make([]Call, len(batch))
			for i := range batch {
				rev[len(batch)-1-i] = batch[i]
			}
			out := o.Young(rev)
			for i := start; i < end; i++ {
				res[i] = out[len(batch)-1-(len(regs)+i-start)]
			}
		}
	}
	for i, c := range calls {
		if c.Entry == ERegister {
			flush(i)
			res[i] = oracleReply{Canon: "nil"}
			regs = append(regs, c)
			start = i + 1
		}
	}
	flush(len(calls))
	return res
}

func (o *Oracle) Close() {
	if o.cmd != nil {
		o.in.Close()
		o.cmd.Wait()
		o.cmd = nil
	}
}
