// Package e2 is the call-history simulator: the whole valid package of the
// rewritten copy, driven through its public API by 1..32 simulated clients,
// with pool and cache faults, and a differential oracle (the same real code
// run alone in an oracle process with fresh pools and an always-miss cache).
package e2

import (
	"fmt"
	"reflect"
	"strings"
	"time"

	"gitee.com/xuesongtao/protoc-go-valid/valid"

	"verifsim/e2/alt"
)

// ---- static struct types. Field names are deliberately shared between
// types (Name, Age, Phone, Code ...) so that a rule set leaking from one call
// to another finds a field to act on; several types carry different rules
// per tag name.

type Pay struct {
	AppName string  `alipay:"to=5~10" wechat:"to=1~3" valid:"required"`
	Amount  float64 `alipay:"to=6~8" wechat:"to=10~12" valid:"ge=1"`
	Note    string  `alipay:"required" wechat:"exist,le=4"`
}

type User struct {
	Name  string `valid:"required,to=2~6" v2:"le=3"`
	Age   int    `valid:"to=1~120" v2:"required,ge=18"`
	Phone string `valid:"exist,phone" v2:"required"`
	Email string `valid:"email"`
}

type Item struct {
	Code  string `valid:"required,le=4" v2:"ge=2"`
	Count int    `valid:"ge=1"`
	Name  string `valid:"exist,le=5"`
}

type Cart struct {
	Name  string           `valid:"required"`
	First *Item            `valid:"required"`
	Items []*Item          `valid:"required"`
	Extra []Item           `valid:"exist"`
	ByKey map[string]*Item `valid:"exist"`
	Owner User             `valid:"exist"`
}

type Pair struct {
	OrderNo string `valid:"either=1"`
	TradeNo string `valid:"either=1"`
	Pass    string `valid:"botheq=2"`
	Pass2   string `valid:"botheq=2"`
	Name    string `valid:"exist,le=6"`
}

type OnePair struct {
	OrderNo string `valid:"either=1" v2:"required"`
	TradeNo string `valid:"either=1"`
	Age     int    `v2:"ge=3"`
}

type Cust struct {
	Name string `valid:"required,even"`
	Code string `valid:"odd"`
	Age  int    `valid:"exist,even"`
}

type Misc struct {
	Hobby  string   `valid:"in=(a/b/c)"`
	Date   string   `valid:"date"`
	IP     string   `valid:"ipv4"`
	Nums   []int    `valid:"unique,le=3"`
	Re     string   `valid:"re='^\\d+$'|digits only"`
	Tags   []string `valid:"exist,unique"`
	Phone  string   `valid:"phone|手机号不对"`
	Count  int      `valid:"oto=1~9"`
	hidden string   `valid:"required"`
}

type Deep struct {
	Name string `valid:"required"`
	Cart *Cart  `valid:"required"`
	Pay  Pay    `valid:"exist" alipay:"required" wechat:"required"`
}

type Plain struct {
	Name string
	Age  int
	Code string
}

type Quoted struct {
	Name string `valid:"required|'a,b',in=(x,y/z)|'p,q',le=3"`
	Code string `valid:"include=(ab/cd),ge=2"`
}

// Order has time.Time fields (which the analysis of a struct type skips) between ruled fields.
type Order struct {
	ID     int       `valid:"required" v2:"ge=5"`
	At     time.Time `valid:"required"`
	Phone  string    `valid:"exist,phone" v2:"required"`
	Paid   time.Time
	Nick   string  `valid:"either=1"`
	Amount float64 `valid:"to=1~5" v2:"le=2"`
}

var _ = Misc{}.hidden

// staticTypes lists (name, constructor of variant v).
type typeInfo struct {
	name string
	mk   func(v int) interface{}
	tags []string // tag names that carry rules on this type ("" = default only)
}

func strN(n int) string { return strings.Repeat("x", n) }

var phones = []string{"", "13812345678", "123", "15900001111"}

func mkItem(v int) *Item {
	switch v % 4 {
	case 0:
		return &Item{Code: "ab", Count: 1, Name: "n"}
	case 1:
		return &Item{Code: "", Count: 0}
	case 2:
		return &Item{Code: "toolong", Count: 2, Name: "waytoolong"}
	}
	return &Item{Code: "c", Count: 5}
}

func mkCart(v int) *Cart {
	c := &Cart{Name: "cart"}
	switch v % 6 {
	case 0:
		c.First = mkItem(0)
		c.Items = []*Item{mkItem(0), mkItem(3)}
	case 1:
		c.Name = ""
	case 2:
		c.First = mkItem(1)
		c.Items = []*Item{mkItem(2), mkItem(1), mkItem(0)}
		c.Extra = []Item{*mkItem(2)}
	case 3:
		c.First = mkItem(0)
		c.Items = []*Item{mkItem(0)}
		// map iteration order is a decision of the simulator (simsync.MapRange),
		// so entries may differ; clause order is compared as a multiset
		c.ByKey = map[string]*Item{"a": mkItem(2), "b": mkItem(1), "c": mkItem(0)}
	case 4:
		c.First = mkItem(2)
		c.Items = []*Item{mkItem(0)}
		c.Owner = User{Name: "x", Age: 300}
	case 5:
		c.First = mkItem(0)
		c.Items = []*Item{mkItem(1)}
		c.ByKey = map[string]*Item{"k": mkItem(1)}
	}
	return c
}

var statics = []typeInfo{
	{"Pay", func(v int) interface{} {
		return &Pay{AppName: strN(v % 8), Amount: float64((v * 3) % 13), Note: strN(v % 6)}
	}, []string{"", "alipay", "wechat"}},
	{"User", func(v int) interface{} {
		return &User{Name: strN((v * 2) % 9), Age: []int{0, 5, 30, 200}[v%4], Phone: phones[v%4], Email: []string{"", "a@b.cn", "bad"}[v%3]}
	}, []string{"", "v2"}},
	{"Item", func(v int) interface{} { return mkItem(v) }, []string{"", "v2"}},
	{"Cart", func(v int) interface{} { return mkCart(v) }, []string{""}},
	{"Pair", func(v int) interface{} {
		p := &Pair{Name: strN(v % 9)}
		if v&1 != 0 {
			p.OrderNo = "o1"
		}
		if v&2 != 0 {
			p.Pass, p.Pass2 = "a", "a"
		} else if v&4 != 0 {
			p.Pass, p.Pass2 = "a", "b"
		}
		return p
	}, []string{""}},
	{"OnePair", func(v int) interface{} {
		return &OnePair{OrderNo: []string{"", "o"}[v%2], TradeNo: []string{"", "", "t"}[v%3], Age: v % 5}
	}, []string{"", "v2"}},
	{"Cust", func(v int) interface{} {
		return &Cust{Name: strN(1 + v%4), Code: strN(v % 4), Age: v % 5}
	}, []string{""}},
	{"Misc", func(v int) interface{} {
		m := &Misc{Hobby: []string{"", "a", "z"}[v%3], Date: []string{"", "2024-01-02", "2024/01/02"}[v%3], IP: []string{"", "1.2.3.4", "999.1.1.1"}[v%3],
			Re: []string{"", "123", "12a"}[v%3], Phone: phones[v%4], Count: v % 11}
		if v%2 == 1 {
			m.Nums = []int{1, 2, 2, 3}
			m.Tags = []string{"a", "a"}
		}
		return m
	}, []string{""}},
	{"Deep", func(v int) interface{} {
		d := &Deep{Name: []string{"", "d"}[v%2]}
		if v%3 != 0 {
			d.Cart = mkCart(v / 3)
		}
		d.Pay = Pay{AppName: strN(v % 7), Amount: float64(v % 12), Note: strN(v % 3)}
		return d
	}, []string{"", "alipay", "wechat"}},
	{"Plain", func(v int) interface{} {
		return &Plain{Name: strN(v % 9), Age: v % 7, Code: strN((v * 5) % 7)}
	}, []string{""}},
	{"Quoted", func(v int) interface{} {
		return &Quoted{Name: []string{"", "x,y", "z", "zzzz"}[v%4], Code: []string{"", "ab", "xabx", "q"}[v%4]}
	}, []string{""}},
	{"Order", func(v int) interface{} {
		o := &Order{ID: v % 3, Phone: phones[v%4], Nick: []string{"", "n"}[v%2], Amount: float64(v % 8)}
		if v%2 == 0 {
			o.At = time.Date(2024, 1, 1+v%5, 10, 0, 0, 0, time.UTC)
		}
		return o
	}, []string{"", "v2"}},
	// same type NAMES as Pay / User / Item above, other package, other rules
	{"AltPay", func(v int) interface{} {
		return &alt.Pay{AppName: strN(v % 8), Amount: float64((v * 3) % 13), Note: strN(v % 6)}
	}, []string{"", "alipay", "wechat"}},
	{"AltUser", func(v int) interface{} {
		return &alt.User{Name: strN((v * 2) % 9), Age: []int{0, 5, 30, 200}[v%4], Phone: phones[v%4], Email: []string{"", "a@b.cn", "bad"}[v%3]}
	}, []string{"", "v2"}},
	{"AltItem", func(v int) interface{} {
		it := mkItem(v)
		return &alt.Item{Code: it.Code, Count: it.Count, Name: it.Name}
	}, []string{"", "v2"}},
}

// ---- dynamic types from reflect.StructOf: i -> a struct type with 1..3
// fields; the same i always gives the identical reflect.Type.

var dynFieldNames = []string{"Name", "Age", "Code", "Phone", "Count"}
var dynStrRules = []string{"required", "to=2~4", "le=3", "exist,ge=2", "required,le=5"}
var dynIntRules = []string{"required", "to=1~5", "ge=3", "le=2", "oto=1~9"}

const NDyn = 760

func dynType(i int) reflect.Type {
	nf := 1 + i%3
	if i%32 == 7 {
		nf = []int{40, 65, 130, 260}[(i/32)%4] // a wide struct now and then: more fields than a scratch table of 32, 64, 128 or 256 entries holds (seeded C08w)
	}
	fields := make([]reflect.StructField, 0, nf)
	for f := 0; f < nf; f++ {
		name := dynFieldNames[(i+f*2)%len(dynFieldNames)]
		if f >= len(dynFieldNames) {
			name += fmt.Sprint("F", f)
		}
		isInt := name == "Age" || name == "Count"
		var tag string
		r1 := (i/3 + f) % 5
		r2 := (i/7 + f + 1) % 5
		if isInt {
			tag = fmt.Sprintf(`valid:"%s" v2:"%s"`, dynIntRules[r1], dynIntRules[r2])
		} else {
			tag = fmt.Sprintf(`valid:"%s" v2:"%s"`, dynStrRules[r1], dynStrRules[r2])
		}
		if f == 0 {
			tag += fmt.Sprintf(` id:"%d"`, i)
		}
		if !isInt && i%4 == 1 && f == nf-1 {
			// a rule text that is unique to this type (a regular expression no other type uses):
			// whatever the library memoises per rule text is cold the first time a process meets this type
			tag = fmt.Sprintf(`valid:"re='^x{0,%d}$'" v2:"%s"`, 1+(i/4)%200, dynStrRules[r2])
		}
		if i%4 == 3 && f == 0 {
			// a rule NAME nobody registered, unique to this type: the library answers "valid ... is not exist"
			tag = fmt.Sprintf(`valid:"nosuch%d" v2:"%s"`, i/4, dynStrRules[r2])
			if isInt {
				tag = fmt.Sprintf(`valid:"nosuch%d,ge=1" v2:"%s"`, i/4, dynIntRules[r2])
			}
		}
		dup := false
		for _, e := range fields {
			if e.Name == name {
				dup = true
			}
		}
		if dup {
			name = name + "2"
		}
		sf := reflect.StructField{Name: name, Tag: reflect.StructTag(tag)}
		if isInt {
			sf.Type = reflect.TypeOf(0)
		} else {
			sf.Type = reflect.TypeOf("")
		}
		fields = append(fields, sf)
	}
	return reflect.StructOf(fields)
}

func dynValue(i, v int) interface{} {
	t := dynType(i)
	p := reflect.New(t)
	e := p.Elem()
	for f := 0; f < t.NumField(); f++ {
		x := (v + f) % 4
		if t.Field(f).Type.Kind() == reflect.Int {
			e.Field(f).SetInt(int64([]int{0, 1, 4, 9}[x]))
		} else {
			e.Field(f).SetString(strN([]int{0, 1, 3, 7}[x]))
		}
	}
	return p.Interface()
}

// ---- rule sets (per-call overrides by field name) and function sets

var ruleSets = []map[string]string{
	nil,
	{"Name": "required,le=2", "Age": "ge=50"},
	{"Code": "required,ge=3", "Phone": "required,phone"},
	{"Name": "le=1|too long name", "Count": "le=0"},
	{"AppName": "required,le=2", "Amount": "le=3", "Note": "required"},
	{"Name": "odd", "Age": "even"},
	{"OrderNo": "required", "TradeNo": "required,le=0"},
	// 7: built with RM.Set("Name,Code", rules...) from a slice the caller keeps (several field names, several rules, an empty rule)
	{"Name": "required,,le=2", "Code": "required,,le=2"},
	// 8: a literal RM{"Name,Age": ..., "Code, Phone": ..., "Count": ...} (see mkRule)
	{"Count": "ge=7"},
	// 9, 10: overrides that name time.Time fields (Order.At, Order.Paid; the library skips such fields today, so alone these
	// calls behave as if the entries were not there) - each names a different one (seeded C11w validated them from spare capacity of the cached slice)
	{"At": "required", "ID": "ge=9"},
	{"Paid": "required", "Nick": "required"},
}

// multiSetRules is the slice handed (spread) to RM.Set for rule set 7; the caller keeps it.
func multiSetRules() []string { return []string{"required", "", "le=2"} }

func mkRule(id int) valid.RM {
	if id <= 0 || id >= len(ruleSets) {
		return nil
	}
	if id == 7 {
		return valid.NewRule().Set("Name,Code", multiSetRules()...)
	}
	if id == 8 {
		// written as a literal, not through Set: keys that list several fields are just keys nobody asks for
		return valid.RM{"Name,Age": "required", "Code, Phone": "le=1", "Count": "ge=7"}
	}
	rm := valid.NewRule()
	// fixed key order: RM.Set has no order dependence, this is for determinism of allocation only
	for _, k := range []string{"Name", "Age", "Code", "Phone", "Count", "AppName", "Amount", "Note", "OrderNo", "TradeNo", "At", "Paid", "ID", "Nick"} {
		if r, ok := ruleSets[id][k]; ok {
			rm.Set(k, r)
		}
	}
	return rm
}

func evenFn(label string) valid.CommonValidFn {
	return func(errBuf *strings.Builder, validName, objName, fieldName string, tv reflect.Value) {
		n := 0
		switch tv.Kind() {
		case reflect.String:
			n = len(tv.String())
		case reflect.Int:
			n = int(tv.Int())
		}
		if n%2 != 0 {
			errBuf.WriteString(valid.GetJoinValidErrStr(objName, fieldName, fmt.Sprint(n), label+" wants even"))
		}
	}
}

func oddFn(label string) valid.CommonValidFn {
	return func(errBuf *strings.Builder, validName, objName, fieldName string, tv reflect.Value) {
		n := 0
		switch tv.Kind() {
		case reflect.String:
			n = len(tv.String())
		case reflect.Int:
			n = int(tv.Int())
		}
		if n%2 == 0 {
			errBuf.WriteString(valid.GetJoinValidErrStr(objName, fieldName, fmt.Sprint(n), label+" wants odd"))
		}
	}
}

// fnSets: 0 none; others are per-call function tables. "even" is also
// registered globally (RegisterGlobals) with a different message.
func mkFns(id int) valid.Name2FnMap {
	switch id {
	case 1:
		return valid.Name2FnMap{"odd": oddFn("call1")}
	case 2:
		return valid.Name2FnMap{"even": evenFn("call2")} // overrides the global one: every entry of the map is independent
	case 3:
		return valid.Name2FnMap{"required": oddFn("call3")} // replaces a built-in for this call only
	case 4:
		return valid.Name2FnMap{"odd": bareOddFn} // reports through GetJoinValidErrStr WITHOUT trailing texts
	case 5:
		return valid.Name2FnMap{"odd": panicOddFn} // user code that panics half-way through a validation
	}
	return nil
}

func bareOddFn(errBuf *strings.Builder, validName, objName, fieldName string, tv reflect.Value) {
	if tv.Kind() == reflect.String && len(tv.String())%2 == 0 {
		errBuf.WriteString(valid.GetJoinValidErrStr(objName, fieldName, tv.String()))
	}
}

func panicOddFn(errBuf *strings.Builder, validName, objName, fieldName string, tv reflect.Value) {
	if tv.Kind() == reflect.String && len(tv.String())%2 == 0 {
		errBuf.WriteString("half a message for " + fieldName)
		panic("custom rule " + validName + " refuses " + objName + "." + fieldName)
	}
}

const NFnSets = 6

var globalsDone bool

// RegisterGlobals is called once per process before any task starts.
func RegisterGlobals() {
	if globalsDone {
		return
	}
	globalsDone = true
	valid.SetCustomerValidFn("even", evenFn("global"))
}
