package e2

import (
	"encoding/json"

	"verifsim/detsim"
	"verifsim/simsync"
)

type Engine struct{}

func (Engine) Name() string { return "E2-call-history-simulator" }

func (Engine) Gen(prop, tier string, r *detsim.Rand) interface{} {
	var p *Plan
	switch prop {
	case "C08":
		p = GenC08(r, tier)
	case "C12":
		p = GenC12(r, tier)
	default:
		p = GenC11(r, tier)
	}
	p.Cfg.Clock = simsync.ClockMode(r.Intn(4)) // the last draw: everything else of the plan is what it was before the clock existed
	p.ExecPanics = r.Chance(1, 3)
	p.SharedArgs = prop != "C08" && r.Chance(1, 4) // drawn after everything else: earlier plans keep their shape
	if p.Cfg.StepCap == 0 {
		p.Cfg.StepCap = 3000000 // a validation of a 3000-level list alone takes tens of thousands of steps
	}
	return p
}

// GenIndexed / SystematicTotal: the long histories of C08 and C12 (see GenLong); the driver splits them evenly among its workers.
func (Engine) GenIndexed(prop, tier string, n uint64) interface{} {
	if (prop != "C08" && prop != "C12") || n >= nLong(tier) {
		return nil
	}
	return GenLong(prop, n)
}

// nLong: one long history per worker in the quick tier, four in the thorough one.
func nLong(tier string) uint64 {
	if tier == "thorough" {
		return 4 * NLong
	}
	return NLong
}

func (Engine) SystematicTotal(prop, tier string) uint64 {
	if prop == "C08" || prop == "C12" {
		return nLong(tier)
	}
	return 0
}

func (Engine) Decode(raw json.RawMessage) (interface{}, error) {
	p := &Plan{}
	if err := json.Unmarshal(raw, p); err != nil {
		return nil, err
	}
	return p, nil
}

func (Engine) FreshProcess(plan interface{}) bool { return plan.(*Plan).FreshProcess() }

type sample struct {
	Prop     string    `json:"prop"`
	Cache    string    `json:"cache"`
	CacheCap int       `json:"cache_cap"`
	Pool     int       `json:"pool_mode"`
	Clients  int       `json:"clients"`
	Calls    int       `json:"calls"`
	History  []CallRec `json:"first_calls"`
	Steps    int       `json:"scheduler_steps"`
	Switches int       `json:"context_switches"`
}

func (Engine) Run(plan interface{}, ch detsim.Chooser) *detsim.RunReport {
	p := plan.(*Plan)
	o := Run(p, ch)
	rep := &detsim.RunReport{V: o.V, NonTrivial: o.NonTrivial, Inconclusive: o.Inconclusive, Probes: o.Probes, Faults: o.Faults, Counters: o.Counters}
	if o.Res != nil {
		rep.LogHash = detsim.HashAdd(o.Res.LogHash, o.ResultHash)
		rep.SwitchHash = o.Res.SwitchHash
		rep.Steps = o.Res.Steps
		rep.Counters.Add("context_switches", int64(o.Res.Switches))
		if p.Repeat > 1 {
			rep.Counters.Add("systematic_cases_run", 1)
			rep.Counters.Add("long_histories", 1)
		}
		rep.PlanSchedHash = detsim.HashAdd(rep.LogHash, uint64(p.NCalls()))
		h := o.Hist
		if len(h) > 12 {
			h = h[:12]
		}
		rep.Sample = sample{p.Prop, p.CacheKind, p.CacheCap, int(p.Cfg.Pool), len(p.Clients), p.NCalls(), h, o.Res.Steps, o.Res.Switches}
	}
	return rep
}

func clonePlan(p *Plan) *Plan {
	q := *p
	q.Clients = make([][]Call, len(p.Clients))
	for i := range p.Clients {
		q.Clients[i] = append([]Call(nil), p.Clients[i]...)
	}
	return &q
}

func (Engine) Shrink(plan interface{}, try func(interface{}) bool) interface{} {
	cur := plan.(*Plan)
	progress := true
	for progress {
		progress = false
		for i := 0; i < len(cur.Clients) && len(cur.Clients) > 1; i++ {
			c := clonePlan(cur)
			c.Clients = append(c.Clients[:i], c.Clients[i+1:]...)
			if c.Cfg.StallTask >= len(c.Clients) {
				c.Cfg.StallTask = -1
			}
			if try(c) {
				cur, progress = c, true
				i--
			}
		}
		for ci := range cur.Clients {
			for size := len(cur.Clients[ci]); size >= 1; size /= 2 {
				for start := 0; start+size <= len(cur.Clients[ci]); {
					c := clonePlan(cur)
					c.Clients[ci] = append(c.Clients[ci][:start], c.Clients[ci][start+size:]...)
					if try(c) {
						cur, progress = c, true
					} else {
						start += size
					}
				}
			}
		}
		simpler := []func(*Plan) bool{
			func(p *Plan) bool { ok := p.Repeat > 1; p.Repeat = 0; return ok },
			func(p *Plan) bool { ok := p.Repeat > 300; p.Repeat = p.Repeat / 2; return ok },
			func(p *Plan) bool { ok := p.Churn > 0; p.Churn = 0; return ok },
			func(p *Plan) bool { ok := p.FreshAt > 0; p.FreshAt = 0; return ok },
			func(p *Plan) bool { ok := p.Cold; p.Cold = false; return ok },
			func(p *Plan) bool { ok := p.Young; p.Young = false; return ok },
			func(p *Plan) bool { ok := p.SharedArgs; p.SharedArgs = false; return ok },
			func(p *Plan) bool { ok := p.Bystander > 0; p.Bystander = 0; return ok },
			func(p *Plan) bool { ok := p.Cfg.PYields; p.Cfg.PYields = false; return ok },
			func(p *Plan) bool { ok := p.Cfg.PostYields; p.Cfg.PostYields = false; return ok },
			func(p *Plan) bool { ok := p.Cfg.StallTask >= 0; p.Cfg.StallTask = -1; return ok },
			func(p *Plan) bool {
				ok := p.LossPm+p.MissPm+p.FlushPm > 0
				p.LossPm, p.MissPm, p.FlushPm = 0, 0, 0
				return ok
			},
			func(p *Plan) bool {
				ok := p.Cfg.GetFreshPermille+p.Cfg.PutDropPermille+p.Cfg.GetAnyPermille+p.Cfg.FlushPermille > 0
				p.Cfg.GetFreshPermille, p.Cfg.PutDropPermille, p.Cfg.GetAnyPermille, p.Cfg.FlushPermille = 0, 0, 0, 0
				return ok
			},
			func(p *Plan) bool {
				ok := p.Cfg.Pool == simsync.PoolRandom || p.Cfg.Pool == simsync.PoolFIFO
				p.Cfg.Pool = simsync.PoolLIFO
				return ok
			},
			func(p *Plan) bool { ok := p.Cfg.Pool != simsync.PoolFresh; p.Cfg.Pool = simsync.PoolFresh; return ok },
			func(p *Plan) bool {
				ok := p.Cfg.Policy != simsync.PolicyUniform
				p.Cfg.Policy, p.Cfg.PCTDepth = simsync.PolicyUniform, 0
				return ok
			},
			func(p *Plan) bool {
				ok := p.CacheKind == CacheDefault
				p.CacheKind, p.CacheCap = CacheLRU, 512
				return ok
			},
			func(p *Plan) bool {
				ok := p.CacheKind == CacheLRU && p.CacheCap > 8
				p.CacheCap = 8
				return ok
			},
			func(p *Plan) bool {
				ok := p.CacheKind == CacheMapDirect
				p.CacheKind = CacheMap
				return ok
			},
			func(p *Plan) bool {
				ok := p.CacheKind == CacheLRUDirect
				p.CacheKind = CacheLRU
				return ok
			},
			func(p *Plan) bool {
				ok := p.CacheKind == CacheMap
				p.CacheKind, p.CacheCap = CacheLRU, 8
				return ok
			},
		}
		for _, f := range simpler {
			c := clonePlan(cur)
			if f(c) && try(c) {
				cur, progress = c, true
			}
		}
		// simpler calls: default shape, no override, smaller value index
		for ci := range cur.Clients {
			for oi := range cur.Clients[ci] {
				cl := cur.Clients[ci][oi]
				alts := []Call{}
				if cl.Shape != 0 {
					d := cl
					d.Shape = 0
					alts = append(alts, d)
				}
				if cl.Fn != 0 {
					d := cl
					d.Fn = 0
					alts = append(alts, d)
				}
				if cl.Val > 0 {
					d := cl
					d.Val = 0
					alts = append(alts, d)
				}
				for _, d := range alts {
					c := clonePlan(cur)
					c.Clients[ci][oi] = d
					if try(c) {
						cur, progress = c, true
						break
					}
				}
			}
		}
	}
	return cur
}
