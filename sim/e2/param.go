package e2

import (
	"fmt"
	"reflect"

	"gitee.com/xuesongtao/protoc-go-valid/valid"

	"verifsim/detsim"
	"verifsim/simsync"
)

// ---- parametric vocabulary: rule texts, tag names, map / query keys and struct types made from a NUMBER, so that one
// history can meet hundreds or thousands of distinct ones and come back to the early ones later. Whatever the library
// derives from such a text and keeps (a compiled pattern, a parsed layout, a split result, an interned name) lives in a
// table of some size; a finite vocabulary of rule texts never fills a table of 128, 256 or 1024 entries (seeded C12u: a
// 128-slot ring of compiled regexps whose index kept the evicted pattern; seeded C11u: tag names interned as uint8).
// No model of any rule is needed: the references come from the oracle processes as for every other call.

// EPar is a call made from (family Rule, parameter N); Val 0 = a value the rule accepts alone, 1 = one it rejects.
const EPar = "parametric"

// NParFam is the number of families.
const NParFam = 12

// parTypeCount bounds the run-time struct types of family 10 (reflect never frees one).
const parTypeCount = 4096

var parTypes = map[int]reflect.Type{}

func parType(n int) reflect.Type {
	n %= parTypeCount
	if t, ok := parTypes[n]; ok {
		return t
	}
	t := reflect.StructOf([]reflect.StructField{
		{Name: "Code", Type: reflect.TypeOf(""), Tag: reflect.StructTag(fmt.Sprintf(`valid:"re='^n%d$'|code %d" v2:"required,prefix=p%d"`, n, n, n))},
		{Name: "Name", Type: reflect.TypeOf(""), Tag: reflect.StructTag(fmt.Sprintf(`valid:"in=(a%d/b)" v2:"le=2"`, n))},
	})
	parTypes[n] = t
	return t
}

func parFamName(f int) string {
	return []string{"Var re", "Var in", "Var to", "Var prefix", "Var required|msg", "Struct tag name", "Url key", "Map key", "ValidNamesSplit", "Var datetime sep", "Struct type", "Var include"}[f%NParFam]
}

// multiTagTypes: static types that carry different rules under several tag names (Pay, User, Item, OnePair, Order).
var multiTagTypes = []int{0, 1, 2, 5, 11}

func (c Call) execPar(res *Result, errRes func(error)) {
	n, ok := c.N, c.Val%2 == 0
	pick := func(good, bad interface{}) interface{} {
		if ok {
			return good
		}
		return bad
	}
	switch c.Rule % NParFam {
	case 0:
		errRes(valid.Var(pick(fmt.Sprintf("n%d", n), fmt.Sprintf("n%dx", n)), fmt.Sprintf("re='^n%d$'", n)))
	case 1:
		errRes(valid.Var(pick(fmt.Sprintf("a%d", n), fmt.Sprintf("a%d", n+1)), fmt.Sprintf("in=(a%d/b)", n)))
	case 2:
		errRes(valid.Var(pick(n+1, n+3), fmt.Sprintf("to=%d~%d", n, n+2)))
	case 3:
		errRes(valid.Var(pick(fmt.Sprintf("p%dz", n), fmt.Sprintf("q%dz", n)), fmt.Sprintf("prefix=p%d", n)))
	case 4:
		errRes(valid.Var(pick("x", ""), fmt.Sprintf("required|message number %d", n)))
	case 5:
		// a struct type with rules under several tag names, validated under a tag name made from n (no field carries it:
		// alone the call returns nil) or under one of its own
		t := multiTagTypes[n%len(multiTagTypes)]
		v := mkValue(t, 1+n%7)
		if ok {
			errRes(valid.ValidateStruct(v, fmt.Sprintf("zq%d", n)))
		} else {
			tags := statics[t].tags
			tg := tags[(n/5)%len(tags)]
			if tg == "" {
				errRes(valid.ValidateStruct(v))
			} else {
				errRes(valid.ValidateStruct(v, tg))
			}
		}
	case 6:
		key := fmt.Sprintf("k%d", n)
		errRes(valid.Url(fmt.Sprintf("http://h/p?%s=%s&other=1", key, pick("v", "")), valid.NewRule().Set(key, fmt.Sprintf("required|key %d please", n))))
	case 7:
		key := fmt.Sprintf("k%d", n)
		errRes(valid.Map(map[string]interface{}{key: pick("ab", "abcdef")}, valid.NewRule().Set(key, "required,le=3")))
	case 8:
		var s string
		if ok {
			s = fmt.Sprintf("required|'a,%d',le=%d,in=(x%d,y/z)|'p,q'", n, n, n)
		} else {
			s = fmt.Sprintf("re='^a,%d$',to=1~%d", n, n)
		}
		l := valid.ValidNamesSplit(s)
		res.Handed = append(res.Handed, l...)
		res.Canon = "list:" + join1f(l)
	case 9:
		// separators made from the number: "s<n>" between date parts, "t<n>" between time parts
		a, b := fmt.Sprintf("s%d", n), fmt.Sprintf("t%d", n)
		val := "2023" + a + "01" + a + "02 10" + b + "00" + b + "00"
		if !ok {
			val = "2023" + a + "01" + a + "02 10:00:00"
		}
		errRes(valid.Var(val, fmt.Sprintf("datetime='%s, ,%s'", a, b)))
	case 10:
		p := reflect.New(parType(n))
		m := n % parTypeCount
		if ok {
			p.Elem().Field(0).SetString(fmt.Sprintf("n%d", m))
			p.Elem().Field(1).SetString(fmt.Sprintf("a%d", m))
		} else {
			p.Elem().Field(0).SetString(fmt.Sprintf("n%d", m+1))
			p.Elem().Field(1).SetString("zzz")
		}
		if n%3 == 2 {
			errRes(valid.ValidateStruct(p.Interface(), "v2"))
		} else {
			errRes(valid.Struct(p.Interface()))
		}
	case 11:
		errRes(valid.Var(pick(fmt.Sprintf("xxq%dyy", n), fmt.Sprintf("xxq%dyy", n+1)), fmt.Sprintf("include=(q%dy/zz)", n)))
	}
}

func join1f(l []string) string {
	s := ""
	for i, x := range l {
		if i > 0 {
			s += "\x1f"
		}
		s += x
	}
	return s
}

// genCardCalls: K first-seen parameters of one or two families in a row, each with an accepted (and now and then a
// rejected) value; whenever the number of parameters met so far reaches a power of two, and at the end, the history
// comes back to the earliest parameters and to a few random earlier ones.
func genCardCalls(r *detsim.Rand, k int, fams []int, base int) []Call {
	var calls []Call
	par := func(f, n, v int) Call { return Call{Entry: EPar, Rule: f, N: base + n, Val: v} }
	revisit := func(upto int) {
		for _, f := range fams {
			for j := 0; j < 3 && j < upto; j++ {
				calls = append(calls, par(f, j, 0), par(f, j, 1))
			}
			for j := 0; j < 3 && upto > 3; j++ {
				calls = append(calls, par(f, r.Intn(upto), r.Intn(2)))
			}
		}
	}
	for i := 0; i < k; i++ {
		for _, f := range fams {
			calls = append(calls, par(f, i, 0))
			if r.Chance(1, 8) {
				calls = append(calls, par(f, i, 1))
			}
		}
		if n := i + 1; n >= 32 && n&(n-1) == 0 {
			revisit(n)
		}
	}
	revisit(k)
	return calls
}

var cardSizes = []int{20, 40, 70, 130, 140, 260, 300, 520, 1030, 1100, 2100, 4200}

// makeCard turns a plan into a high-cardinality history (clients: how many clients walk through the parameters).
func makeCard(r *detsim.Rand, p *Plan, clients int, structOnly bool) {
	k := cardSizes[r.Weighted([]int{4, 4, 4, 8, 6, 8, 6, 6, 5, 3, 2, 1})]
	fams := []int{r.Intn(NParFam)}
	if structOnly {
		fams = []int{[]int{5, 10}[r.Intn(2)]}
	} else if r.Chance(1, 3) {
		fams = append(fams, r.Intn(NParFam))
	}
	base := 0
	if r.Chance(1, 3) {
		base = 10000 * (1 + r.Intn(50))
	}
	p.Clients = nil
	if clients <= 1 {
		p.Clients = [][]Call{genCardCalls(r, k, fams, base)}
	} else {
		if k > 300 {
			k = 300 // tables of 128 and 256 entries wrap; a run stays below half a second
		}
		all := genCardCalls(r, k, fams, base)
		for c := 0; c < clients; c++ {
			// every client walks through the same parameters, each starting somewhere else
			off := len(all) * c / clients
			calls := append(append([]Call(nil), all[off:]...), all[:off]...)
			p.Clients = append(p.Clients, calls)
		}
	}
	p.Young = true
	p.FreshAt, p.Repeat, p.RepeatFrom = 0, 0, 0
	if p.Cfg.StepCap < 40000000 {
		p.Cfg.StepCap = 40000000
	}
	_ = simsync.PolicyUniform
}
