// simrewrite copies a working tree of the repository under test into a
// scratch directory and substitutes package sync by the simulator's shim in
// its non-test Go files. Optionally it inserts sync.SimPoint(n) before every
// statement of selected files (never inside the body of a range statement).
//
//	simrewrite -src /repo -dst /tmp/x/repo [-pyield valid/cache.go,...] [-osshim file/witre.go,...]
//
// Exit status 2 = the tree cannot be simulated (e.g. it starts goroutines).
package main

import (
	"flag"
	"fmt"
	"go/ast"
	"go/parser"
	"go/token"
	"io/fs"
	"os"
	"path/filepath"
	"sort"
	"strings"
)

const shimPath = "verifsim/simsync"

type insertion struct {
	off  int
	text string
}

func fail(format string, a ...interface{}) {
	fmt.Fprintf(os.Stderr, "simrewrite: "+format+"\n", a...)
	os.Exit(2)
}

func main() {
	src := flag.String("src", "/repo", "source tree")
	dst := flag.String("dst", "", "destination directory (created)")
	pyield := flag.String("pyield", "", "comma separated relative paths that get statement-level yields")
	flag.Parse()
	if *dst == "" {
		fail("-dst is required")
	}
	py := map[string]bool{}
	for _, p := range strings.Split(*pyield, ",") {
		if p != "" {
			py[filepath.Clean(p)] = true
		}
	}
	rewritten := 0
	sites := 0
	err := filepath.WalkDir(*src, func(path string, d fs.DirEntry, err error) error {
		if err != nil {
			return err
		}
		rel, _ := filepath.Rel(*src, path)
		if d.IsDir() {
			if d.Name() == ".git" {
				return filepath.SkipDir
			}
			return os.MkdirAll(filepath.Join(*dst, rel), 0o755)
		}
		if !d.Type().IsRegular() {
			return nil
		}
		if strings.HasSuffix(rel, "_test.go") {
			return nil
		}
		data, err := os.ReadFile(path)
		if err != nil {
			return err
		}
		if strings.HasSuffix(rel, ".go") {
			out, n, changed := rewrite(rel, data, py[filepath.Clean(rel)])
			if changed {
				rewritten++
			}
			sites += n
			data = out
		}
		if rel == "go.mod" {
			data = append(data, []byte("\nrequire verifsim/simsync v0.0.0\n")...)
		}
		return os.WriteFile(filepath.Join(*dst, rel), data, 0o644)
	})
	if err != nil {
		fail("%v", err)
	}
	fmt.Printf("simrewrite: %d files use the shim, %d yield sites\n", rewritten, sites)
}

func rewrite(rel string, data []byte, yields bool) ([]byte, int, bool) {
	fset := token.NewFileSet()
	f, err := parser.ParseFile(fset, rel, data, parser.ParseComments)
	if err != nil {
		// leave it alone: the compiler will say what is wrong (exit 2 of the build step)
		return data, 0, false
	}
	var ins []insertion
	off := func(p token.Pos) int { return fset.Position(p).Offset }
	usesSync := false
	for _, im := range f.Imports {
		if im.Path.Value == `"sync"` {
			usesSync = true
			if im.Name == nil {
				ins = append(ins, insertion{off(im.Path.Pos()), "sync "})
			}
			// replace the literal: delete is emulated by a marker handled below
			ins = append(ins, insertion{off(im.Path.Pos()), "\x00" + fmt.Sprint(len(im.Path.Value))})
		}
	}
	ast.Inspect(f, func(n ast.Node) bool {
		if g, ok := n.(*ast.GoStmt); ok {
			fail("%s:%d: go statement in the code under test; goroutines outside the simulator cannot be scheduled", rel, fset.Position(g.Pos()).Line)
		}
		return true
	})
	sites := 0
	if yields {
		var walkList func(list []ast.Stmt)
		var walkStmt func(s ast.Stmt)
		walkList = func(list []ast.Stmt) {
			for _, s := range list {
				sites++
				ins = append(ins, insertion{off(s.Pos()), fmt.Sprintf("sync.SimPoint(%d); ", fset.Position(s.Pos()).Line)})
				walkStmt(s)
			}
		}
		walkStmt = func(s ast.Stmt) {
			switch x := s.(type) {
			case *ast.BlockStmt:
				walkList(x.List)
			case *ast.IfStmt:
				walkList(x.Body.List)
				if x.Else != nil {
					walkStmt(x.Else)
				}
			case *ast.ForStmt:
				walkList(x.Body.List)
			case *ast.RangeStmt:
				// never inside: iteration over a Go map has a random order, the
				// number of yields would differ between two executions of one seed
			case *ast.SwitchStmt:
				walkList(x.Body.List)
			case *ast.TypeSwitchStmt:
				walkList(x.Body.List)
			case *ast.SelectStmt:
				walkList(x.Body.List)
			case *ast.CaseClause:
				// statements of a case body: insert, but the clause itself got
				// an insertion at "case", which must be undone
				walkList(x.Body)
			case *ast.CommClause:
				walkList(x.Body)
			case *ast.LabeledStmt:
				walkStmt(x.Stmt)
			}
		}
		for _, d := range f.Decls {
			fd, ok := d.(*ast.FuncDecl)
			if !ok || fd.Body == nil {
				continue
			}
			walkList(fd.Body.List)
		}
		// case/comm clauses are "statements" of a switch body list: remove the
		// insertions placed in front of the keywords "case"/"default"
		bad := map[int]bool{}
		ast.Inspect(f, func(n ast.Node) bool {
			switch x := n.(type) {
			case *ast.CaseClause:
				bad[off(x.Pos())] = true
			case *ast.CommClause:
				bad[off(x.Pos())] = true
			}
			return true
		})
		kept := ins[:0]
		for _, in := range ins {
			if bad[in.off] && strings.HasPrefix(in.text, "sync.SimPoint") {
				sites--
				continue
			}
			kept = append(kept, in)
		}
		ins = kept
		if !usesSync && sites > 0 {
			ins = append(ins, insertion{off(f.Name.End()), "\nimport sync \"" + shimPath + "\"\n"})
			usesSync = true
		}
	}
	if len(ins) == 0 {
		return data, 0, false
	}
	sort.SliceStable(ins, func(i, j int) bool { return ins[i].off < ins[j].off })
	var out []byte
	pos := 0
	for _, in := range ins {
		out = append(out, data[pos:in.off]...)
		pos = in.off
		if strings.HasPrefix(in.text, "\x00") {
			var n int
			fmt.Sscan(in.text[1:], &n)
			out = append(out, []byte(`"`+shimPath+`"`)...)
			pos += n
			continue
		}
		out = append(out, in.text...)
	}
	out = append(out, data[pos:]...)
	return out, sites, usesSync
}
