// simrewrite copies a working tree of the repository under test into a
// scratch directory and, in its non-test Go files,
//
//   - substitutes package sync by the simulator's shim (import rewrite),
//
//   - makes iteration over Go maps a decision of the simulator: "for k, v :=
//     range m" over a map and "x.MapRange()" on a reflect.Value go through
//     helpers of the shim (types are taken from go/types, fed with the export
//     data `go list -export` produces for the unmodified copy),
//
//   - optionally inserts simshim.SimPoint(line) before every statement of
//     selected files (never inside the body of a range statement).
//
//     simrewrite -src /repo -dst /tmp/x/repo [-pyield valid/cache.go,...]
//
// Exit status 2 = the tree cannot be simulated (does not build, starts goroutines).
package main

import (
	"bytes"
	"encoding/json"
	"flag"
	"fmt"
	"go/ast"
	"go/importer"
	"go/parser"
	"go/token"
	"go/types"
	"io"
	"io/fs"
	"os"
	"os/exec"
	"path/filepath"
	"regexp"
	"sort"
	"strings"
)

const shimPath = "verifsim/simsync"

var clockOnly bool

type edit struct {
	off, del int
	text     string
	prio     int // order among edits at the same offset
}

func fail(format string, a ...interface{}) {
	fmt.Fprintf(os.Stderr, "simrewrite: "+format+"\n", a...)
	os.Exit(2)
}

type listedPkg struct {
	Dir        string
	ImportPath string
	Export     string
	GoFiles    []string
	Standard   bool
	Module     *struct{ Main bool }
	Error      *struct{ Err string }
}

func main() {
	src := flag.String("src", "/repo", "source tree")
	dst := flag.String("dst", "", "destination directory (created)")
	pyield := flag.String("pyield", "", "comma separated relative paths that get statement-level yields")
	nomaps := flag.Bool("nomaps", false, "leave map iteration alone")
	flag.BoolVar(&clockOnly, "clockonly", false, "redirect the clock calls of EVERY package and change nothing else (the command-line tool that is run at simulated times)")
	flag.Parse()
	if *dst == "" {
		fail("-dst is required")
	}
	py := map[string]bool{}
	for _, p := range strings.Split(*pyield, ",") {
		if p != "" {
			py[filepath.Clean(p)] = true
		}
	}
	// 1. verbatim copy (no .git, no tests)
	err := filepath.WalkDir(*src, func(path string, d fs.DirEntry, err error) error {
		if err != nil {
			return err
		}
		rel, _ := filepath.Rel(*src, path)
		if d.IsDir() {
			if d.Name() == ".git" {
				return filepath.SkipDir
			}
			return os.MkdirAll(filepath.Join(*dst, rel), 0o755)
		}
		if !d.Type().IsRegular() || strings.HasSuffix(rel, "_test.go") {
			return nil
		}
		data, err := os.ReadFile(path)
		if err != nil {
			return err
		}
		return os.WriteFile(filepath.Join(*dst, rel), data, 0o644)
	})
	if err != nil {
		fail("%v", err)
	}
	// 2. export data of the unmodified copy
	var pkgs []*listedPkg
	exports := map[string]string{}
	cmd := exec.Command("go", "list", "-export", "-deps", "-json=Dir,ImportPath,Export,GoFiles,Standard,Module,Error", "./...")
	cmd.Dir = *dst
	cmd.Env = append(os.Environ(), "GOFLAGS=-mod=mod", "GOPROXY=off", "GOSUMDB=off", "GOTOOLCHAIN=local")
	var stderr bytes.Buffer
	cmd.Stderr = &stderr
	out, err := cmd.Output()
	if err != nil {
		fail("the copy of %s does not build:\n%s", *src, stderr.String())
	}
	dec := json.NewDecoder(bytes.NewReader(out))
	for {
		p := &listedPkg{}
		if err := dec.Decode(p); err == io.EOF {
			break
		} else if err != nil {
			fail("go list: %v", err)
		}
		if p.Error != nil {
			fail("the copy of %s does not build: %s: %s", *src, p.ImportPath, p.Error.Err)
		}
		if p.Export != "" {
			exports[p.ImportPath] = p.Export
		}
		if p.Module != nil && p.Module.Main {
			pkgs = append(pkgs, p)
		}
	}
	// 3. per package: parse, type-check, edit
	fset := token.NewFileSet()
	imp := importer.ForCompiler(fset, "gc", func(path string) (io.ReadCloser, error) {
		f, ok := exports[path]
		if !ok {
			return nil, fmt.Errorf("no export data for %s", path)
		}
		return os.Open(f)
	})
	rewritten, sites, ranges, iters, atomics, clocks, gos := 0, 0, 0, 0, 0, 0, 0
	for _, p := range pkgs {
		var files []*ast.File
		var names []string
		for _, gf := range p.GoFiles {
			if strings.HasSuffix(gf, "_test.go") {
				continue
			}
			full := filepath.Join(p.Dir, gf)
			f, err := parser.ParseFile(fset, full, nil, parser.ParseComments)
			if err != nil {
				fail("%v", err)
			}
			files = append(files, f)
			names = append(names, full)
		}
		info := &types.Info{Types: map[ast.Expr]types.TypeAndValue{}, Uses: map[*ast.Ident]types.Object{}}
		conf := types.Config{Importer: imp, Error: func(error) {}}
		conf.Check(p.ImportPath, fset, files, info)
		for i, f := range files {
			rel, _ := filepath.Rel(*dst, names[i])
			data, _ := os.ReadFile(names[i])
			out, st := rewrite(fset, f, info, rel, data, py[filepath.Clean(rel)], !*nomaps)
			if st.changed {
				rewritten++
				if err := os.WriteFile(names[i], out, 0o644); err != nil {
					fail("%v", err)
				}
			}
			sites += st.sites
			ranges += st.ranges
			iters += st.iters
			atomics += st.atomics
			clocks += st.clocks
			gos += st.gos
		}
	}
	// 4. go.mod: require the shim; generics in the inserted helpers need go >= 1.20 (interface keys satisfying comparable)
	gm := filepath.Join(*dst, "go.mod")
	data, err := os.ReadFile(gm)
	if err != nil {
		fail("%v", err)
	}
	re := regexp.MustCompile(`(?m)^go 1\.(\d+)(\.\d+)?\s*$`)
	if m := re.FindSubmatch(data); m != nil {
		var minor int
		fmt.Sscan(string(m[1]), &minor)
		if minor < 20 {
			data = re.ReplaceAll(data, []byte("go 1.20"))
		}
	} else {
		data = append(data, []byte("\ngo 1.20\n")...)
	}
	data = append(data, []byte("\nrequire "+shimPath+" v0.0.0\n")...)
	if err := os.WriteFile(gm, data, 0o644); err != nil {
		fail("%v", err)
	}
	fmt.Printf("simrewrite: %d files rewritten, %d yield sites, %d map ranges, %d MapRange calls, %d yields at sync/atomic operations, %d clock calls redirected, %d go statements turned into tasks\n", rewritten, sites, ranges, iters, atomics, clocks, gos)
}

type stats struct {
	changed                               bool
	sites, ranges, iters, atomics, clocks, gos int
}

func rewrite(fset *token.FileSet, f *ast.File, info *types.Info, rel string, data []byte, yields, maps bool) ([]byte, stats) {
	var st stats
	var eds []edit
	off := func(p token.Pos) int { return fset.Position(p).Offset }
	text := func(a, b token.Pos) string { return string(data[off(a):off(b)]) }
	needShim := false
	keepTime := map[string]bool{}
	for _, im := range f.Imports {
		if im.Path.Value == `"sync"` && !clockOnly {
			t := `"` + shimPath + `"`
			if im.Name == nil {
				t = "sync " + t
			}
			eds = append(eds, edit{off: off(im.Path.Pos()), del: len(im.Path.Value), text: t})
		}
	}
	// goroutines started by the LIBRARY become tasks of the simulator: `go f(a, b)` turns into a block that evaluates f, a and b
	// at the statement (as the language prescribes) and hands a closure to simshim.Go. The command-line tool (package main and
	// package file, which the simulated engines never call) may start as many as it likes: it is checked as a real process
	if f.Name.Name != "main" && !strings.HasPrefix(rel, "file/") && !clockOnly {
		nGo := 0
		ast.Inspect(f, func(n ast.Node) bool {
			g, ok := n.(*ast.GoStmt)
			if !ok {
				return true
			}
			nGo++
			st.gos++
			needShim = true
			call := g.Call
			if fl, isLit := call.Fun.(*ast.FuncLit); isLit && len(call.Args) == 0 {
				// go func() { ... }()  ->  simshim.Go(func() { ... })
				eds = append(eds, edit{off: off(g.Pos()), del: off(fl.Pos()) - off(g.Pos()), text: "simshim.Go(", prio: 2})
				eds = append(eds, edit{off: off(fl.End()), del: off(call.End()) - off(fl.End()), text: ")"})
				return true
			}
			if tv, ok := info.Types[call.Fun]; ok && (tv.IsType() || tv.IsBuiltin()) {
				fail("%s:%d: go statement on a conversion or builtin; not supported by the rewrite", rel, fset.Position(g.Pos()).Line)
			}
			pre := fmt.Sprintf("{ simG%dF := ", nGo)
			args := ""
			var more []edit
			for i, a := range call.Args {
				if args != "" {
					args += ", "
				}
				if tv, ok := info.Types[a]; ok && tv.Value != nil {
					args += text(a.Pos(), a.End()) // a constant: evaluated at any time alike
					continue
				}
				if tv, ok := info.Types[a]; ok {
					if _, isTuple := tv.Type.(*types.Tuple); isTuple {
						fail("%s:%d: go statement whose argument is a multi-value call; not supported by the rewrite", rel, fset.Position(g.Pos()).Line)
					}
					if tv.IsNil() {
						args += "nil"
						continue
					}
				}
				v := fmt.Sprintf("simG%dA%d", nGo, i)
				more = append(more, edit{off: off(a.Pos()), text: "; " + v + " := ", prio: -2})
				args += v
				if i == len(call.Args)-1 && call.Ellipsis.IsValid() {
					args += "..."
				}
			}
			// layout: "go FUN(A0, A1)" -> "{ simGF := FUN; simGA0 := A0; simGA1 := A1; simshim.Go(func() { simGF(simGA0, simGA1) }) }"
			eds = append(eds, edit{off: off(g.Pos()), del: off(call.Fun.Pos()) - off(g.Pos()), text: pre, prio: 2})
			// drop "(" and the separators between arguments, keep the argument texts (they may contain edits of their own)
			prev := call.Fun.End()
			for i, a := range call.Args {
				isConst := false
				if tv, ok := info.Types[a]; ok && (tv.Value != nil || tv.IsNil()) {
					isConst = true
				}
				if isConst {
					eds = append(eds, edit{off: off(prev), del: off(a.End()) - off(prev)})
				} else {
					eds = append(eds, edit{off: off(prev), del: off(a.Pos()) - off(prev), text: more[0].text})
					more = more[1:]
				}
				prev = a.End()
				_ = i
			}
			eds = append(eds, edit{off: off(prev), del: off(call.End()) - off(prev), text: fmt.Sprintf("; simshim.Go(func() { simG%dF(%s) }) }", nGo, args)})
			return true
		})
	}
	// the clock: time.Now / Since / Until / Sleep become the simulator's (simulated time, decided by the run's plan);
	// timers and tickers deliver on channels from goroutines of the runtime, which the simulator cannot schedule
	library := clockOnly || (f.Name.Name != "main" && !strings.HasPrefix(rel, "file/"))
	ast.Inspect(f, func(n ast.Node) bool {
		sel, ok := n.(*ast.SelectorExpr)
		if !ok {
			return true
		}
		id, ok := sel.X.(*ast.Ident)
		if !ok {
			return true
		}
		pn, ok := info.Uses[id].(*types.PkgName)
		if !ok || pn.Imported().Path() != "time" {
			return true
		}
		switch sel.Sel.Name {
		case "Now", "Since", "Until", "Sleep":
			if library {
				st.clocks++
				needShim = true
				eds = append(eds, edit{off: off(id.Pos()), del: len(id.Name), text: "simshim", prio: 1})
				if !keepTime[id.Name] {
					keepTime[id.Name] = true
					eds = append(eds, edit{off: len(data), text: "\nvar _ " + id.Name + ".Duration\n"})
				}
			}
		case "AfterFunc", "Timer":
			// time.AfterFunc starts a task that sleeps on the simulated clock; *time.Timer in declarations follows
			if library && !clockOnly {
				st.clocks++
				needShim = true
				eds = append(eds, edit{off: off(id.Pos()), del: len(id.Name), text: "simshim", prio: 1})
				if !keepTime[id.Name] {
					keepTime[id.Name] = true
					eds = append(eds, edit{off: len(data), text: "\nvar _ " + id.Name + ".Duration\n"})
				}
			}
		case "After", "NewTimer", "NewTicker", "Tick":
			if library && !clockOnly {
				fail("%s:%d: time.%s in the library under test; timers outside the simulator cannot be scheduled", rel, fset.Position(sel.Pos()).Line, sel.Sel.Name)
			}
		}
		return true
	})
	if maps && !clockOnly {
		n := 0
		ast.Inspect(f, func(node ast.Node) bool {
			switch x := node.(type) {
			case *ast.RangeStmt:
				tv, ok := info.Types[x.X]
				if !ok || tv.Type == nil {
					return true
				}
				if _, isMap := tv.Type.Underlying().(*types.Map); !isMap {
					return true
				}
				n++
				st.ranges++
				needShim = true
				ev := fmt.Sprintf("simE%d_", n)
				hdrFrom := x.X.Pos()
				if x.Key != nil {
					hdrFrom = x.Key.Pos()
				} else {
					// "for range m": the keyword "range" precedes X
					hdrFrom = x.For + token.Pos(len("for"))
					for data[off(hdrFrom)] == ' ' || data[off(hdrFrom)] == '\t' {
						hdrFrom++
					}
				}
				hdr := fmt.Sprintf("_, %s := range simshim.MapEntries(%s)", ev, text(x.X.Pos(), x.X.End()))
				eds = append(eds, edit{off: off(hdrFrom), del: off(x.X.End()) - off(hdrFrom), text: hdr})
				// first statement of the body: skip entries deleted meanwhile, then bind the loop variables
				body := " if !" + ev + ".Live() { continue }; "
				tok := ":="
				if x.Tok == token.ASSIGN {
					tok = "="
				}
				isBlank := func(e ast.Expr) bool {
					id, ok := e.(*ast.Ident)
					return e == nil || (ok && id.Name == "_")
				}
				switch {
				case !isBlank(x.Key) && !isBlank(x.Value):
					body += fmt.Sprintf("%s, %s %s %s.K, %s.V(); ", text(x.Key.Pos(), x.Key.End()), text(x.Value.Pos(), x.Value.End()), tok, ev, ev)
				case !isBlank(x.Key):
					body += fmt.Sprintf("%s %s %s.K; ", text(x.Key.Pos(), x.Key.End()), tok, ev)
				case !isBlank(x.Value):
					body += fmt.Sprintf("%s %s %s.V(); ", text(x.Value.Pos(), x.Value.End()), tok, ev)
				}
				eds = append(eds, edit{off: off(x.Body.Lbrace) + 1, text: body, prio: -1})
			case *ast.CallExpr:
				sel, ok := x.Fun.(*ast.SelectorExpr)
				if !ok || sel.Sel.Name != "MapRange" || len(x.Args) != 0 {
					return true
				}
				tv, ok := info.Types[sel.X]
				if !ok || tv.Type == nil || tv.Type.String() != "reflect.Value" {
					return true
				}
				st.iters++
				needShim = true
				eds = append(eds, edit{off: off(x.Pos()), del: off(x.End()) - off(x.Pos()), text: "simshim.MapRange(" + text(sel.X.Pos(), sel.X.End()) + ")"})
			}
			return true
		})
	}
	// scheduling points around sync/atomic operations (every file): a statement that contains a call of a
	// sync/atomic function or of a method of a sync/atomic type gets an unconditional yield in front of it
	// (never inside the body of a range statement, never in files that already get statement-level yields)
	if !yields && !clockOnly {
		atomicNames := map[string]bool{}
		for _, im := range f.Imports {
			if im.Path.Value == `"sync/atomic"` {
				n := "atomic"
				if im.Name != nil {
					n = im.Name.Name
				}
				atomicNames[n] = true
			}
		}
		isAtomicCall := func(n ast.Node) bool {
			found := false
			ast.Inspect(n, func(x ast.Node) bool {
				if _, isFn := x.(*ast.FuncLit); isFn {
					return false
				}
				c, ok := x.(*ast.CallExpr)
				if !ok {
					return true
				}
				sel, ok := c.Fun.(*ast.SelectorExpr)
				if !ok {
					return true
				}
				if id, ok := sel.X.(*ast.Ident); ok && atomicNames[id.Name] {
					found = true
				}
				if tv, ok := info.Types[sel.X]; ok && tv.Type != nil {
					t := tv.Type
					if pt, ok := t.(*types.Pointer); ok {
						t = pt.Elem()
					}
					if nt, ok := t.(*types.Named); ok && nt.Obj().Pkg() != nil && nt.Obj().Pkg().Path() == "sync/atomic" {
						found = true
					}
				}
				return true
			})
			return found
		}
		var aList func(list []ast.Stmt)
		var aStmt func(s ast.Stmt)
		aList = func(list []ast.Stmt) {
			for _, s := range list {
				switch x := s.(type) {
				case *ast.CaseClause, *ast.CommClause:
				case *ast.ExprStmt, *ast.AssignStmt, *ast.IncDecStmt, *ast.ReturnStmt, *ast.DeclStmt, *ast.DeferStmt:
					if isAtomicCall(x) {
						st.atomics++
						needShim = true
						eds = append(eds, edit{off: off(s.Pos()), text: "simshim.Yield(); "})
					}
				case *ast.IfStmt:
					if (x.Init != nil && isAtomicCall(x.Init)) || isAtomicCall(x.Cond) {
						st.atomics++
						needShim = true
						eds = append(eds, edit{off: off(s.Pos()), text: "simshim.Yield(); "})
					}
				case *ast.ForStmt:
					if x.Cond != nil && isAtomicCall(x.Cond) {
						st.atomics++
						needShim = true
						eds = append(eds, edit{off: off(s.Pos()), text: "simshim.Yield(); "})
					}
				case *ast.SwitchStmt:
					if x.Tag != nil && isAtomicCall(x.Tag) {
						st.atomics++
						needShim = true
						eds = append(eds, edit{off: off(s.Pos()), text: "simshim.Yield(); "})
					}
				}
				aStmt(s)
			}
		}
		aStmt = func(s ast.Stmt) {
			switch x := s.(type) {
			case *ast.BlockStmt:
				aList(x.List)
			case *ast.IfStmt:
				aList(x.Body.List)
				if x.Else != nil {
					aStmt(x.Else)
				}
			case *ast.ForStmt:
				aList(x.Body.List)
			case *ast.RangeStmt:
				// never inside
			case *ast.SwitchStmt:
				aList(x.Body.List)
			case *ast.TypeSwitchStmt:
				aList(x.Body.List)
			case *ast.SelectStmt:
				aList(x.Body.List)
			case *ast.CaseClause:
				aList(x.Body)
			case *ast.CommClause:
				aList(x.Body)
			case *ast.LabeledStmt:
				aStmt(x.Stmt)
			}
		}
		for _, d := range f.Decls {
			if fd, ok := d.(*ast.FuncDecl); ok && fd.Body != nil {
				aList(fd.Body.List)
			}
		}
	}
	if yields && !clockOnly {
		var walkList func(list []ast.Stmt)
		var walkStmt func(s ast.Stmt)
		walkList = func(list []ast.Stmt) {
			for _, s := range list {
				switch s.(type) {
				case *ast.CaseClause, *ast.CommClause:
				default:
					st.sites++
					needShim = true
					eds = append(eds, edit{off: off(s.Pos()), text: fmt.Sprintf("simshim.SimPoint(%d); ", fset.Position(s.Pos()).Line)})
				}
				walkStmt(s)
			}
		}
		walkStmt = func(s ast.Stmt) {
			switch x := s.(type) {
			case *ast.BlockStmt:
				walkList(x.List)
			case *ast.IfStmt:
				walkList(x.Body.List)
				if x.Else != nil {
					walkStmt(x.Else)
				}
			case *ast.ForStmt:
				walkList(x.Body.List)
			case *ast.RangeStmt:
				// never inside: the number of yields would depend on the iteration
			case *ast.SwitchStmt:
				walkList(x.Body.List)
			case *ast.TypeSwitchStmt:
				walkList(x.Body.List)
			case *ast.SelectStmt:
				walkList(x.Body.List)
			case *ast.CaseClause:
				walkList(x.Body)
			case *ast.CommClause:
				walkList(x.Body)
			case *ast.LabeledStmt:
				walkStmt(x.Stmt)
			}
		}
		for _, d := range f.Decls {
			if fd, ok := d.(*ast.FuncDecl); ok && fd.Body != nil {
				walkList(fd.Body.List)
			}
		}
	}
	if needShim {
		eds = append(eds, edit{off: off(f.Name.End()), text: "\n\nimport simshim \"" + shimPath + "\"\n"})
	}
	if len(eds) == 0 {
		return data, st
	}
	st.changed = true
	sort.SliceStable(eds, func(i, j int) bool {
		if eds[i].off != eds[j].off {
			return eds[i].off < eds[j].off
		}
		return eds[i].prio < eds[j].prio
	})
	var out []byte
	pos := 0
	for _, e := range eds {
		if e.off < pos {
			fail("%s: overlapping edits at offset %d", rel, e.off)
		}
		out = append(out, data[pos:e.off]...)
		out = append(out, e.text...)
		pos = e.off + e.del
	}
	out = append(out, data[pos:]...)
	return out, st
}
