#!/bin/bash
# mkscratch.sh <scratchdir> [race|norace|both]
# Copies /repo's working tree into <scratchdir>/repo with package sync
# substituted, and builds the worker binaries there. Exit 2 on build trouble.
set -u
export GOFLAGS=-mod=mod GOPROXY=off GOSUMDB=off GOTOOLCHAIN=local
S="$1"; MODE="${2:-both}"
SIM=${VERIF_SIM:-/verif/sim}
BIN=${VERIF_BIN:-/verif/bin}
REPO="${VERIF_REPO:-/repo}"
mkdir -p "$S" || exit 2
mkdir -p $BIN
if [ ! -x $BIN/simrewrite ] || [ $SIM/tools/simrewrite/main.go -nt $BIN/simrewrite ]; then
  (cd $SIM && go build -o $BIN/simrewrite ./tools/simrewrite) || exit 2
fi
$BIN/simrewrite -src "$REPO" -dst "$S/repo" -pyield valid/cache.go >"$S/rewrite.log" 2>&1 || { cat "$S/rewrite.log" >&2; exit 2; }
cat > "$S/go.mod" <<EOM
module verifsim

go 1.21

require (
	gitee.com/xuesongtao/protoc-go-valid v0.0.0
	github.com/anishathalye/porcupine v1.3.0
	verifsim/simsync v0.0.0
)

replace verifsim/simsync => ${VERIF_SIM:-/verif/sim}/simsync

replace gitee.com/xuesongtao/protoc-go-valid => $S/repo
EOM
cp $SIM/go.sum "$S/go.sum" 2>/dev/null || : > "$S/go.sum"
cd $SIM || exit 2
rc=0
if [ "$MODE" = race ] || [ "$MODE" = both ]; then
  go build -race -modfile="$S/go.mod" -o "$S/simworker.race" ./cmd/simworker >"$S/build.race.log" 2>&1 &
  P1=$!
fi
if [ "$MODE" = norace ] || [ "$MODE" = both ]; then
  go build -modfile="$S/go.mod" -o "$S/simworker" ./cmd/simworker >"$S/build.log" 2>&1 &
  P2=$!
fi
# a 32-bit build of the plain worker (int and pointers are 32 bits wide, 64-bit fields are only 4-byte aligned): a share of the runs is repeated on it
GOARCH=386 go build -modfile="$S/go.mod" -o "$S/simworker.386" ./cmd/simworker >"$S/build.386.log" 2>&1 &
P3=$!
if [ -n "${P1:-}" ]; then wait $P1 || { cat "$S/build.race.log" >&2; rc=2; }; fi
if [ -n "${P2:-}" ]; then wait $P2 || { cat "$S/build.log" >&2; rc=2; }; fi
wait $P3 || { echo "mkscratch: no 32-bit worker: $(head -3 "$S/build.386.log")" >&2; rm -f "$S/simworker.386"; }
exit $rc
