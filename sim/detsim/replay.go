package detsim

import (
	"encoding/json"
	"fmt"
	"os"
	"sort"
)

// Violation is what an engine reports for one run.
type Violation struct {
	Class  string `json:"class"`            // e.g. model-mismatch, linearizability, race, deadlock, panic
	Sub    string `json:"sub,omitempty"`    // stable sub-class used in signatures, e.g. stale-value
	Detail string `json:"detail,omitempty"` // free text for the reader
	// Subs lists every sub-class seen in the run when there can be several
	// (one per race report); Sub is the first of them.
	Subs []string `json:"subs,omitempty"`
}

// Matches reports whether got shows the violation want: same class and
// want's sub-class among got's.
func (want *Violation) Matches(got *Violation) bool {
	if got == nil || got.Class != want.Class {
		return false
	}
	if got.Sub == want.Sub {
		return true
	}
	for _, s := range got.Subs {
		if s == want.Sub {
			return true
		}
	}
	return false
}

// Signature identifies a finding: property/class/sub.
func (v *Violation) Signature(prop string) string {
	if v.Sub != "" {
		return prop + "/" + v.Class + "/" + v.Sub
	}
	return prop + "/" + v.Class
}

// ReplayFile is the self-contained description of one run.
type ReplayFile struct {
	Property     string          `json:"property"`
	Engine       string          `json:"engine"`
	Tier         string          `json:"tier"`
	BatchSeed    uint64          `json:"batch_seed"`
	Index        uint64          `json:"index"`
	RunSeed      uint64          `json:"run_seed"`
	RepoTreeHash string          `json:"repo_tree_hash,omitempty"`
	Plan         json.RawMessage `json:"plan"`
	Choices      []Choice        `json:"choices"`
	Violation    *Violation      `json:"violation,omitempty"`
	EventLogHash string          `json:"event_log_hash,omitempty"`
	Minimised    bool            `json:"minimised"`
	ShrinkSteps  int             `json:"shrink_steps,omitempty"`
	Note         string          `json:"note,omitempty"`
	// Seeded: draw the schedule/fault stream from RunSeed instead of Choices
	// (used when a batch hands a run to a fresh process).
	// WorkerFrom is the first seeded run index of the worker process that found the violation. With WarmUp the
	// replay first re-executes the seeded runs WorkerFrom..Index-1 in the same process (the state of lazily filled
	// package-level tables and of the standard library's internal pools is then the one the run met), then the run itself.
	WorkerFrom uint64 `json:"worker_from,omitempty"`
	WarmUp     bool   `json:"warm_up,omitempty"`
	Seeded     bool   `json:"seeded,omitempty"`
	// OneCPU: the worker process that found the violation had restricted itself to one CPU (VERIF_ONECPU, so that the Go
	// runtime reports NumCPU() == 1); a replay does the same before anything else.
	OneCPU string `json:"one_cpu,omitempty"`
	// Arch: GOARCH of the worker that found the violation when it is not amd64 ("386": the 32-bit build); replays use the same build.
	Arch   string     `json:"arch,omitempty"`
	Report *RunReport `json:"report,omitempty"`
}

func (r *ReplayFile) Write(path string) error {
	b, err := json.MarshalIndent(r, "", " ")
	if err != nil {
		return err
	}
	return os.WriteFile(path, b, 0o644)
}

func ReadReplay(path string) (*ReplayFile, error) {
	b, err := os.ReadFile(path)
	if err != nil {
		return nil, err
	}
	r := &ReplayFile{}
	if err := json.Unmarshal(b, r); err != nil {
		return nil, fmt.Errorf("%s: %v", path, err)
	}
	return r, nil
}

// Counter is a string-keyed counter with deterministic JSON output.
type Counter map[string]int64

func (c Counter) Add(k string, n int64) { c[k] += n }
func (c Counter) Merge(o Counter) {
	for k, v := range o {
		c[k] += v
	}
}
func (c Counter) Keys() []string {
	ks := make([]string, 0, len(c))
	for k := range c {
		ks = append(ks, k)
	}
	sort.Strings(ks)
	return ks
}

// HashSet is a set of 64-bit hashes with a cap on what is kept (the count
// beyond the cap is still exact for one worker; across workers the driver
// merges the kept sets and adds the overflow counts, which is reported as a
// lower bound when any overflow happened).
type HashSet struct {
	M        map[uint64]struct{}
	Cap      int
	Overflow int64
}

func NewHashSet(cap int) *HashSet { return &HashSet{M: map[uint64]struct{}{}, Cap: cap} }

func (h *HashSet) Add(v uint64) {
	if _, ok := h.M[v]; ok {
		return
	}
	if len(h.M) >= h.Cap {
		h.Overflow++
		return
	}
	h.M[v] = struct{}{}
}

func (h *HashSet) List() []uint64 {
	l := make([]uint64, 0, len(h.M))
	for k := range h.M {
		l = append(l, k)
	}
	sort.Slice(l, func(i, j int) bool { return l[i] < l[j] })
	return l
}

// BatchResult is what one worker process writes for the driver.
type BatchResult struct {
	Property              string            `json:"property"`
	Tier                  string            `json:"tier"`
	BatchSeed             uint64            `json:"batch_seed"`
	From                  uint64            `json:"from"`
	To                    uint64            `json:"to"`
	Runs                  int64             `json:"runs"`
	Steps                 int64             `json:"steps"`
	NonTrivial            int64             `json:"nontrivial"`
	Counters              Counter           `json:"counters"`
	Faults                Counter           `json:"faults"`
	Probes                Counter           `json:"probes"`
	Interleavings         []uint64          `json:"interleavings"` // distinct switch-sequence hashes (kept part)
	InterleavingsOverflow int64             `json:"interleavings_overflow"`
	NonTrivialHashes      []uint64          `json:"nontrivial_hashes"` // distinct plan+schedule hashes of non-trivial runs
	NonTrivialOverflow    int64             `json:"nontrivial_overflow"`
	States                []uint64          `json:"states,omitempty"`
	StatesOverflow        int64             `json:"states_overflow,omitempty"`
	Inconclusive          int64             `json:"inconclusive"`
	Samples               []json.RawMessage `json:"samples"`
	Violations            []string          `json:"violations"` // replay file paths
	WallS                 float64           `json:"wall_s"`
	SystematicTotal       uint64            `json:"systematic_total,omitempty"` // size of the systematic corpus of this property and tier (same in every worker)
	LogHashXor            uint64            `json:"log_hash_xor"`               // xor of all runs' event-log hashes (determinism self-test)
}
