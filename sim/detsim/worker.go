package detsim

import (
	"encoding/json"
	"fmt"
	"os"
	"os/exec"
	"path/filepath"
	"time"
)

// Chooser mirrors simsync.Chooser (kept separate so that engines without a
// scheduler can use the package too).
type Chooser interface {
	Intn(n int, label string) int
}

// RunReport is what an engine returns for one run.
type RunReport struct {
	V             *Violation
	LogHash       uint64
	SwitchHash    uint64
	PlanSchedHash uint64
	Steps         int
	NonTrivial    bool
	Inconclusive  bool
	Probes        Counter
	Faults        Counter
	Counters      Counter
	States        []uint64
	Sample        interface{} // a printable form of the case, for evidence samples
}

// Engine is implemented by e1, e2.
type Engine interface {
	Name() string
	// Gen draws the plan of run idx from r.
	Gen(prop, tier string, r *Rand) interface{}
	Decode(raw json.RawMessage) (interface{}, error)
	Run(plan interface{}, ch Chooser) *RunReport
	// Shrink proposes simpler plans one at a time; try returns true when the
	// candidate still fails (the engine should then continue from it).
	Shrink(plan interface{}, try func(cand interface{}) bool) interface{}
}

// IndexedGenerator is implemented by engines that have a systematic corpus
// next to the seeded draws: case n of SystematicTotal; the driver splits the
// corpus evenly among the workers, which run their share before the seeded part.
type IndexedGenerator interface {
	GenIndexed(prop, tier string, n uint64) interface{}
	SystematicTotal(prop, tier string) uint64
}

// FreshProcesser is implemented by engines some of whose plans must be the
// first thing that happens in their process.
type FreshProcesser interface {
	FreshProcess(plan interface{}) bool
}

// SysBase is added to the number of a systematic case to form its run index.
const SysBase = uint64(1) << 40

const SchedSalt = schedSalt

const schedSalt = 0x5ced5ced5ced5ced

// RunSeeded runs plan idx of a batch.
func RunSeeded(e Engine, prop, tier string, batchSeed, idx uint64) (interface{}, *SeedChooser, *RunReport, uint64) {
	runSeed := Mix(batchSeed, prop+"/"+tier, idx)
	plan := e.Gen(prop, tier, NewRand(runSeed))
	ch := &SeedChooser{R: NewRand(runSeed ^ schedSalt)}
	rep := e.Run(plan, ch)
	return plan, ch, rep, runSeed
}

// RaceLog watches the race detector's log file of this process.
type RaceLog struct {
	path string
	size int64
}

// NewRaceLog expects GORACE to contain log_path=<prefix>; the detector
// appends ".<pid>" to it.
func NewRaceLog(prefix string) *RaceLog {
	if prefix == "" {
		return nil
	}
	return &RaceLog{path: fmt.Sprintf("%s.%d", prefix, os.Getpid())}
}

// Grown returns the text added since the last call ("" if none).
func (r *RaceLog) Grown() string {
	if r == nil {
		return ""
	}
	st, err := os.Stat(r.path)
	if err != nil || st.Size() <= r.size {
		return ""
	}
	f, err := os.Open(r.path)
	if err != nil {
		return ""
	}
	defer f.Close()
	n := st.Size() - r.size
	trunc := ""
	if n > 1<<20 {
		// reports with stacks of thousands of frames (a race deep inside a recursive walk) run to hundreds of megabytes
		trunc = fmt.Sprintf("\n[... %d more bytes of race reports for this run not read]\n", n-1<<20)
		n = 1 << 20
	}
	buf := make([]byte, n)
	f.ReadAt(buf, r.size)
	r.size = st.Size()
	return string(buf) + trunc
}

// Tester decides whether a candidate (plan, choices) still shows the violation.
type Tester func(plan interface{}, choices []Choice) (fails bool, recorded []Choice, rep *RunReport)

// InProcessTester runs candidates in this process (semantic classes).
func InProcessTester(e Engine, want *Violation) Tester {
	return func(plan interface{}, choices []Choice) (bool, []Choice, *RunReport) {
		ch := &ReplayChooser{List: choices}
		rep := e.Run(plan, ch)
		ok := want.Matches(rep.V)
		return ok, ch.Rec, rep
	}
}

// SubprocessTester re-executes this binary on a candidate replay file and
// looks for the same class (needed for class race, which is a verdict of the
// race detector about a whole process).
func SubprocessTester(e Engine, base *ReplayFile, dir string, want *Violation) Tester {
	n := 0
	return func(plan interface{}, choices []Choice) (bool, []Choice, *RunReport) {
		n++
		raw, _ := json.Marshal(plan)
		cand := *base
		cand.Plan = raw
		cand.Choices = choices
		cand.Violation = want
		in := filepath.Join(dir, fmt.Sprintf("cand-%d-%d.json", os.Getpid(), n))
		outp := in + ".out"
		defer os.Remove(in)
		defer os.Remove(outp)
		if err := cand.Write(in); err != nil {
			return false, nil, nil
		}
		cmd := exec.Command(os.Args[0], "replay", "-lenient", "-out", outp, in)
		cmd.Env = append(os.Environ(), "GORACE=halt_on_error=0 exitcode=66 history_size=7 atexit_sleep_ms=0 log_path="+in+".race")
		cmd.Run()
		defer func() {
			m, _ := filepath.Glob(in + ".race.*")
			for _, f := range m {
				os.Remove(f)
			}
		}()
		res, err := ReadReplay(outp)
		if err != nil || res.Violation == nil {
			return false, nil, nil
		}
		ok := want.Matches(res.Violation)
		var lh uint64
		fmt.Sscanf(res.EventLogHash, "%x", &lh)
		return ok, res.Choices, &RunReport{V: res.Violation, LogHash: lh}
	}
}

// Minimise shrinks plan and choices while test keeps failing. Budget is wall clock.
func Minimise(e Engine, plan interface{}, choices []Choice, test Tester, budget time.Duration) (interface{}, []Choice, int) {
	deadline := time.Now().Add(budget)
	steps := 0
	expired := func() bool { return time.Now().After(deadline) }
	tryChoices := func(c []Choice) bool {
		if expired() {
			return false
		}
		ok, rec, _ := test(plan, c)
		if ok {
			choices = rec
			steps++
		}
		return ok
	}
	shrinkChoices := func() {
		// all zero first
		nz := 0
		for _, c := range choices {
			if c.V != 0 {
				nz++
			}
		}
		if nz == 0 {
			return
		}
		if tryChoices(nil) {
			return
		}
		// zero out chunks, halving
		for size := len(choices) / 2; size >= 1 && !expired(); size /= 2 {
			for start := 0; start < len(choices) && !expired(); start += size {
				end := start + size
				if end > len(choices) {
					end = len(choices)
				}
				any := false
				for _, c := range choices[start:end] {
					if c.V != 0 {
						any = true
						break
					}
				}
				if !any {
					continue
				}
				cand := append([]Choice(nil), choices...)
				for i := start; i < end; i++ {
					cand[i].V = 0
				}
				tryChoices(cand)
			}
		}
	}
	for round := 0; round < 6 && !expired(); round++ {
		before := steps
		plan = e.Shrink(plan, func(cand interface{}) bool {
			if expired() {
				return false
			}
			ok, rec, _ := test(cand, choices)
			if !ok {
				// the schedule may not fit the smaller plan: also try the calm schedule
				ok, rec, _ = test(cand, nil)
			}
			if ok {
				choices = rec
				steps++
			}
			return ok
		})
		shrinkChoices()
		if steps == before {
			break
		}
	}
	return plan, choices, steps
}
