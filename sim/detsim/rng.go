// Package detsim holds what every engine shares: the seeded generator, the
// choosers (seeded / strict replay / lenient replay), replay files and
// statistics helpers. Nothing here reads a clock or math/rand globals.
package detsim

import (
	"fmt"
)

// SplitMix64 step.
func SplitMix(x *uint64) uint64 {
	*x += 0x9e3779b97f4a7c15
	z := *x
	z = (z ^ (z >> 30)) * 0xbf58476d1ce4e5b9
	z = (z ^ (z >> 27)) * 0x94d049bb133111eb
	return z ^ (z >> 31)
}

// Mix derives a run seed from the batch seed, a property tag and an index.
func Mix(seed uint64, tag string, idx uint64) uint64 {
	x := seed
	h := SplitMix(&x)
	for i := 0; i < len(tag); i++ {
		x ^= uint64(tag[i]) * 0x100000001b3
		h ^= SplitMix(&x)
	}
	x ^= idx * 0x9e3779b97f4a7c15
	h ^= SplitMix(&x)
	return h
}

// Rand is xoshiro256**.
type Rand struct{ s [4]uint64 }

func NewRand(seed uint64) *Rand {
	r := &Rand{}
	x := seed
	for i := range r.s {
		r.s[i] = SplitMix(&x)
	}
	return r
}

func rotl(x uint64, k uint) uint64 { return (x << k) | (x >> (64 - k)) }

func (r *Rand) Uint64() uint64 {
	s := &r.s
	res := rotl(s[1]*5, 7) * 9
	t := s[1] << 17
	s[2] ^= s[0]
	s[3] ^= s[1]
	s[1] ^= s[2]
	s[0] ^= s[3]
	s[2] ^= t
	s[3] = rotl(s[3], 45)
	return res
}

func (r *Rand) Intn(n int) int {
	if n <= 1 {
		return 0
	}
	return int(r.Uint64() % uint64(n))
}

// Chance returns true with probability num/den.
func (r *Rand) Chance(num, den int) bool { return r.Intn(den) < num }

// Pick returns one of the weighted indices.
func (r *Rand) Weighted(w []int) int {
	tot := 0
	for _, x := range w {
		tot += x
	}
	if tot == 0 {
		return 0
	}
	v := r.Intn(tot)
	for i, x := range w {
		if v < x {
			return i
		}
		v -= x
	}
	return len(w) - 1
}

// Choice is one recorded decision of the schedule/fault stream.
type Choice struct {
	N int `json:"n"`
	V int `json:"v"`
}

// SeedChooser draws from a Rand and records what it drew.
type SeedChooser struct {
	R   *Rand
	Rec []Choice
}

func (c *SeedChooser) Intn(n int, label string) int {
	v := c.R.Intn(n)
	c.Rec = append(c.Rec, Choice{n, v})
	return v
}

// ReplayChooser replays a recorded list. Strict: any mismatch of n, or
// running past the end, is recorded in Err (and 0 is returned). Lenient (for
// shrinking): exhausted -> 0, out of range -> v mod n.
type ReplayChooser struct {
	List   []Choice
	Pos    int
	Strict bool
	Err    error
	Rec    []Choice
}

func (c *ReplayChooser) Intn(n int, label string) int {
	v := 0
	if c.Pos < len(c.List) {
		ch := c.List[c.Pos]
		v = ch.V
		if c.Strict && ch.N != n && c.Err == nil {
			c.Err = fmt.Errorf("replay diverged at choice %d (%s): recorded n=%d, asked n=%d", c.Pos, label, ch.N, n)
		}
		if v >= n || v < 0 {
			v = ((v % n) + n) % n
		}
	} else if c.Strict && c.Err == nil {
		c.Err = fmt.Errorf("replay diverged: choice list exhausted at %d (%s)", c.Pos, label)
	}
	c.Pos++
	c.Rec = append(c.Rec, Choice{n, v})
	return v
}

// FNV-1a helpers used for hashes of canonical results.
func Hash64(s string) uint64 {
	h := uint64(1469598103934665603)
	for i := 0; i < len(s); i++ {
		h ^= uint64(s[i])
		h *= 1099511628211
	}
	return h
}

func HashAdd(h uint64, v uint64) uint64 {
	for i := 0; i < 8; i++ {
		h ^= v & 0xff
		h *= 1099511628211
		v >>= 8
	}
	return h
}
