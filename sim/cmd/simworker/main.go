// simworker is built per check from the rewritten scratch copy of the
// repository. It runs batches of simulated runs, replays and minimises.
//
//	simworker batch  -prop C10 -tier quick -seed S -from A -to B -out res.json -replaydir D
//	simworker replay [-lenient] [-out res.json] file.json
//	simworker shrink -out min.json [-budget 60s] [-subprocess] file.json
//
// Exit status: 0 no violation, 1 violation (replay), 66 the race detector
// reported (replay), 2 trouble.
package main

import (
	"encoding/json"
	"flag"
	"fmt"
	"os"
	"os/exec"
	"path/filepath"
	"runtime"
	"strconv"
	"strings"
	"sync/atomic"
	"syscall"
	"time"
	"unsafe"

	"verifsim/detsim"
	"verifsim/simsync"
)

var simRunning int32

func engineFor(prop, shape string) detsim.Engine {
	e := lookupEngine(prop, shape)
	if e == nil {
		fmt.Fprintln(os.Stderr, "simworker: no engine for property", prop)
		os.Exit(2)
	}
	return e
}

func raceLogPrefix() string {
	for _, kv := range strings.Fields(os.Getenv("GORACE")) {
		if strings.HasPrefix(kv, "log_path=") {
			return strings.TrimPrefix(kv, "log_path=")
		}
	}
	return ""
}

// raceViolation turns the detector's output for one run into a violation
// with one sub-class per report.
func raceViolation(txt string) *detsim.Violation {
	v := &detsim.Violation{Class: "race", Detail: txt}
	if len(v.Detail) > 200000 {
		v.Detail = v.Detail[:200000] + "\n[... truncated]"
	}
	seen := map[string]bool{}
	for _, rep := range strings.Split(txt, "WARNING: DATA RACE") {
		if !strings.Contains(rep, " by goroutine ") {
			continue
		}
		s := raceSub(rep)
		if !seen[s] {
			seen[s] = true
			v.Subs = append(v.Subs, s)
		}
	}
	if len(v.Subs) == 0 {
		v.Subs = []string{"unattributed"}
	}
	v.Sub = v.Subs[0]
	return v
}

func raceSub(report string) string {
	// stable signature of a race report: the two top application frames
	var fr []string
	lines := strings.Split(report, "\n")
	for i, l := range lines {
		l = strings.TrimSpace(l)
		if (strings.HasPrefix(l, "Write at") || strings.HasPrefix(l, "Read at") || strings.HasPrefix(l, "Previous write at") || strings.HasPrefix(l, "Previous read at")) && i+1 < len(lines) {
			for j := i + 1; j < len(lines) && strings.TrimSpace(lines[j]) != ""; j += 2 {
				fn := strings.TrimSpace(lines[j])
				if k := strings.LastIndex(fn, "("); k > 0 && strings.HasSuffix(fn, ")") {
					fn = fn[:k]
				}
				if strings.Contains(fn, "protoc-go-valid") {
					if k := strings.LastIndex(fn, "/"); k >= 0 {
						fn = fn[k+1:]
					}
					fr = append(fr, fn)
					break
				}
			}
		}
		if len(fr) == 2 {
			break
		}
	}
	if len(fr) == 0 {
		return "unattributed"
	}
	if len(fr) == 2 && fr[0] > fr[1] {
		fr[0], fr[1] = fr[1], fr[0]
	}
	return strings.Join(fr, "~")
}

// oneCPU: with VERIF_ONECPU=<k> the worker restricts itself to the k-th CPU it is allowed to use and starts over, so that the
// Go runtime of the process that runs the simulations (and of every process it starts) reports NumCPU() == 1 - the machine a
// small container or a one-core virtual machine is. The number of CPUs is read once, when a process starts.
func oneCPU() {
	v := os.Getenv("VERIF_ONECPU")
	if v == "" || os.Getenv("VERIF_ONECPU_SET") != "" {
		return
	}
	k, _ := strconv.Atoi(v)
	var mask [16]uint64
	if _, _, e := syscall.RawSyscall(syscall.SYS_SCHED_GETAFFINITY, 0, uintptr(len(mask)*8), uintptr(unsafe.Pointer(&mask[0]))); e != 0 {
		return
	}
	var allowed []int
	for i := 0; i < len(mask)*64; i++ {
		if mask[i/64]&(1<<uint(i%64)) != 0 {
			allowed = append(allowed, i)
		}
	}
	if len(allowed) < 2 {
		return
	}
	cpu := allowed[k%len(allowed)]
	mask = [16]uint64{}
	mask[cpu/64] = 1 << uint(cpu%64)
	if _, _, e := syscall.RawSyscall(syscall.SYS_SCHED_SETAFFINITY, 0, uintptr(len(mask)*8), uintptr(unsafe.Pointer(&mask[0]))); e != 0 {
		return
	}
	os.Setenv("VERIF_ONECPU_SET", "1")
	exe, err := os.Executable()
	if err != nil {
		return
	}
	syscall.Exec(exe, os.Args, os.Environ())
}

func arch() string {
	if runtime.GOARCH == "amd64" {
		return ""
	}
	return runtime.GOARCH
}

// applyEnv puts a replaying process into the environment the finding process had.
func applyEnv(rf *detsim.ReplayFile) {
	if rf.OneCPU != "" && os.Getenv("VERIF_ONECPU_SET") == "" {
		os.Setenv("VERIF_ONECPU", rf.OneCPU)
		oneCPU()
	}
}

func main() {
	if len(os.Args) < 2 {
		fmt.Fprintln(os.Stderr, "usage: simworker batch|replay|shrink ...")
		os.Exit(2)
	}
	oneCPU()
	simsync.StartWatchdog(60*time.Second, func() bool { return atomic.LoadInt32(&simRunning) == 1 })
	switch os.Args[1] {
	case "batch":
		batch(os.Args[2:])
	case "replay":
		replay(os.Args[2:])
	case "shrink":
		shrink(os.Args[2:])
	case "oracle":
		oracleMain(os.Args[2:])
	case "systotal":
		// simworker systotal <prop> <tier>: size of the systematic corpus
		if len(os.Args) != 4 {
			os.Exit(2)
		}
		var n uint64
		if ig, ok := lookupEngine(os.Args[2], "").(detsim.IndexedGenerator); ok {
			n = ig.SystematicTotal(os.Args[2], os.Args[3])
		}
		fmt.Println(n)
	default:
		fmt.Fprintln(os.Stderr, "simworker: unknown command", os.Args[1])
		os.Exit(2)
	}
}

func batch(args []string) {
	fs := flag.NewFlagSet("batch", flag.ExitOnError)
	prop := fs.String("prop", "", "property id")
	tier := fs.String("tier", "quick", "tier")
	seed := fs.Uint64("seed", 1, "batch seed")
	from := fs.Uint64("from", 0, "first run index")
	to := fs.Uint64("to", 0, "one past the last run index")
	out := fs.String("out", "", "result file")
	rdir := fs.String("replaydir", "", "directory for replay files")
	shape := fs.String("shape", "", "force a plan shape")
	maxWall := fs.Duration("maxwall", 0, "stop after this wall time (0: none)")
	treeHash := fs.String("tree", "", "hash of the repository tree (recorded in replay files)")
	sysFrom := fs.Uint64("sysfrom", 0, "first case of this worker's share of the systematic corpus")
	sysTo := fs.Uint64("systo", 0, "one past the last case of the share")
	fs.Parse(args)
	e := engineFor(*prop, *shape)
	rl := detsim.NewRaceLog(raceLogPrefix())
	res := &detsim.BatchResult{Property: *prop, Tier: *tier, BatchSeed: *seed, From: *from, To: *from,
		Counters: detsim.Counter{}, Faults: detsim.Counter{}, Probes: detsim.Counter{}}
	inter := detsim.NewHashSet(200000)
	nontriv := detsim.NewHashSet(200000)
	states := detsim.NewHashSet(200000)
	start := time.Now()
	seenSig := map[string]bool{}
	ig, _ := e.(detsim.IndexedGenerator)
	if ig == nil {
		*sysFrom, *sysTo = 0, 0
	}
	nSys := *sysTo - *sysFrom
	for step := uint64(0); step < nSys+(*to-*from); step++ {
		var idx uint64
		var plan interface{}
		if step < nSys {
			// this worker's share of the systematic corpus: always run completely
			idx = detsim.SysBase + *sysFrom + step
			plan = ig.GenIndexed(*prop, *tier, *sysFrom+step)
		} else {
			idx = *from + (step - nSys)
			if *maxWall > 0 && time.Since(start) > *maxWall {
				break
			}
		}
		runSeed := detsim.Mix(*seed, *prop+"/"+*tier, idx)
		if plan == nil {
			plan = e.Gen(*prop, *tier, detsim.NewRand(runSeed))
		}
		var rep *detsim.RunReport
		var rec []detsim.Choice
		var subV *detsim.Violation
		runStart := time.Now()
		if fp, ok := e.(detsim.FreshProcesser); ok && fp.FreshProcess(plan) {
			rep, rec, subV = runFresh(e, *prop, *tier, *seed, idx, runSeed, plan, *rdir)
			res.Counters.Add("runs_in_a_fresh_process", 1)
		} else {
			ch := &detsim.SeedChooser{R: detsim.NewRand(runSeed ^ detsim.SchedSalt)}
			atomic.StoreInt32(&simRunning, 1)
			rep = e.Run(plan, ch)
			atomic.StoreInt32(&simRunning, 0)
			rec = ch.Rec
		}
		if d := time.Since(runStart); d > 3*time.Second && os.Getenv("VERIF_SLOW") != "" {
			b, _ := json.Marshal(plan)
			if len(b) > 400 {
				b = b[:400]
			}
			fmt.Fprintf(os.Stderr, "SLOW run %d: %v steps=%d %s\n", idx, d, rep.Steps, b)
		}
		if step >= nSys {
			res.To = idx + 1
		}
		res.Runs++
		res.Steps += int64(rep.Steps)
		res.LogHashXor ^= detsim.HashAdd(rep.LogHash, idx)
		res.Counters.Merge(rep.Counters)
		if runtime.NumCPU() == 1 {
			res.Counters.Add("runs_in_a_process_that_sees_one_cpu", 1)
		}
		if arch() != "" {
			res.Counters.Add("runs_in_a_"+arch()+"_process", 1)
		}
		res.Faults.Merge(rep.Faults)
		res.Probes.Merge(rep.Probes)
		inter.Add(rep.SwitchHash)
		for _, s := range rep.States {
			states.Add(s)
		}
		if rep.Inconclusive {
			res.Inconclusive++
		}
		if rep.NonTrivial {
			res.NonTrivial++
			nontriv.Add(rep.PlanSchedHash)
		}
		if len(res.Samples) < 3 && (rep.NonTrivial || idx == *from) && rep.Sample != nil {
			b, _ := json.Marshal(rep.Sample)
			if len(b) < 20000 {
				res.Samples = append(res.Samples, b)
			}
		}
		var vs []*detsim.Violation
		if rep.V != nil {
			vs = append(vs, rep.V)
		} else if subV != nil {
			vs = append(vs, subV)
		}
		if txt := rl.Grown(); txt != "" {
			// the race detector reported during this run
			vs = append(vs, raceViolation(txt))
		}
		stop := false
		for _, v := range vs {
			sig := v.Signature(*prop)
			if seenSig[sig] && len(res.Violations) >= 8 {
				continue
			}
			seenSig[sig] = true
			raw, _ := json.Marshal(plan)
			rf := &detsim.ReplayFile{Property: *prop, Engine: e.Name(), Tier: *tier, BatchSeed: *seed, Index: idx, RunSeed: runSeed, OneCPU: os.Getenv("VERIF_ONECPU"), Arch: arch(),
				RepoTreeHash: *treeHash, Plan: raw, Choices: rec, Violation: v, EventLogHash: fmt.Sprintf("%016x", rep.LogHash), WorkerFrom: *from}
			path := filepath.Join(*rdir, fmt.Sprintf("%s-%d-%d-%s.json", *prop, *seed, idx, v.Class))
			if err := rf.Write(path); err != nil {
				fmt.Fprintln(os.Stderr, "simworker:", err)
				os.Exit(2)
			}
			res.Violations = append(res.Violations, path)
			if len(res.Violations) >= 24 {
				stop = true
			}
		}
		if stop {
			break
		}
	}
	res.Interleavings, res.InterleavingsOverflow = inter.List(), inter.Overflow
	res.NonTrivialHashes, res.NonTrivialOverflow = nontriv.List(), nontriv.Overflow
	res.States, res.StatesOverflow = states.List(), states.Overflow
	res.WallS = time.Since(start).Seconds()
	if ig, ok := e.(detsim.IndexedGenerator); ok {
		res.SystematicTotal = ig.SystematicTotal(*prop, *tier)
	}
	b, _ := json.Marshal(res)
	if err := os.WriteFile(*out, b, 0o644); err != nil {
		fmt.Fprintln(os.Stderr, "simworker:", err)
		os.Exit(2)
	}
	// the race detector's exit status must not be mistaken for trouble
	os.Exit(0)
}

func replay(args []string) {
	fs := flag.NewFlagSet("replay", flag.ExitOnError)
	lenient := fs.Bool("lenient", false, "lenient chooser (shrinking)")
	out := fs.String("out", "", "write the outcome as a replay file")
	trace := fs.Bool("trace", false, "print the event trace")
	warm := fs.Bool("warmup", false, "first re-execute the seeded runs of the finding worker that preceded this one")
	fs.Parse(args)
	if fs.NArg() != 1 {
		fmt.Fprintln(os.Stderr, "usage: simworker replay file.json")
		os.Exit(2)
	}
	rf, err := detsim.ReadReplay(fs.Arg(0))
	if err != nil {
		fmt.Fprintln(os.Stderr, "simworker:", err)
		os.Exit(2)
	}
	applyEnv(rf)
	e := engineFor(rf.Property, "")
	plan, err := e.Decode(rf.Plan)
	if err != nil {
		fmt.Fprintln(os.Stderr, "simworker:", err)
		os.Exit(2)
	}
	_ = trace
	rl := detsim.NewRaceLog(raceLogPrefix())
	if (*warm || rf.WarmUp) && rf.Index < detsim.SysBase && rf.Index > rf.WorkerFrom {
		n := 0
		for i := rf.WorkerFrom; i < rf.Index; i++ {
			seed := detsim.Mix(rf.BatchSeed, rf.Property+"/"+rf.Tier, i)
			wp := e.Gen(rf.Property, rf.Tier, detsim.NewRand(seed))
			if fp, ok := e.(detsim.FreshProcesser); ok && fp.FreshProcess(wp) {
				continue // ran in a process of its own
			}
			atomic.StoreInt32(&simRunning, 1)
			e.Run(wp, &detsim.SeedChooser{R: detsim.NewRand(seed ^ detsim.SchedSalt)})
			atomic.StoreInt32(&simRunning, 0)
			n++
		}
		rl.Grown() // reports of the warm-up runs are not this run's
		fmt.Printf("REPLAY warm-up: re-executed %d preceding runs of the finding worker\n", n)
	}
	var ch detsim.Chooser
	rch := &detsim.ReplayChooser{List: rf.Choices, Strict: !*lenient}
	sch := &detsim.SeedChooser{R: detsim.NewRand(rf.RunSeed ^ detsim.SchedSalt)}
	ch = rch
	if rf.Seeded {
		ch = sch
	}
	atomic.StoreInt32(&simRunning, 1)
	rep := e.Run(plan, ch)
	atomic.StoreInt32(&simRunning, 0)
	recorded := rch.Rec
	if rf.Seeded {
		recorded = sch.Rec
	}
	// a run can show a semantic violation and race reports; the one the file
	// is about takes precedence
	v := rep.V
	if txt := rl.Grown(); txt != "" {
		rv := raceViolation(txt)
		if v == nil || (rf.Violation != nil && rf.Violation.Class == "race") {
			if v != nil {
				rv.Detail = "(also: " + v.Signature(rf.Property) + ")\n" + rv.Detail
			}
			v = rv
		} else {
			v.Detail += "\n(the race detector also reported: " + strings.Join(rv.Subs, ", ") + ")"
		}
	}
	if rch.Err != nil {
		fmt.Println("REPLAY-DIVERGED", rch.Err)
	}
	hash := fmt.Sprintf("%016x", rep.LogHash)
	if *out != "" {
		o := *rf
		o.Choices = recorded
		o.Violation = v
		o.EventLogHash = hash
		o.Seeded = false
		rep.V = nil
		o.Report = rep
		o.Write(*out)
	}
	if v == nil {
		fmt.Printf("REPLAY property=%s no violation loghash=%s\n", rf.Property, hash)
		os.Exit(0)
	}
	same := ""
	if rf.Violation != nil {
		same = fmt.Sprintf(" expected=%s same_class=%v same_loghash=%v", rf.Violation.Signature(rf.Property),
			rf.Violation.Matches(v), rf.EventLogHash == hash)
	}
	fmt.Printf("REPLAY property=%s violation=%s loghash=%s%s\n", rf.Property, v.Signature(rf.Property), hash, same)
	d := v.Detail
	if len(d) > 3000 {
		d = d[:3000] + "..."
	}
	fmt.Println(d)
	if v.Class == "race" {
		os.Exit(66)
	}
	os.Exit(1)
}

func shrink(args []string) {
	fs := flag.NewFlagSet("shrink", flag.ExitOnError)
	out := fs.String("out", "", "minimised replay file")
	budget := fs.Duration("budget", 60*time.Second, "wall clock budget")
	sub := fs.Bool("subprocess", false, "test candidates in sub-processes (class race)")
	fs.Parse(args)
	rf, err := detsim.ReadReplay(fs.Arg(0))
	if err != nil || rf.Violation == nil {
		fmt.Fprintln(os.Stderr, "simworker: shrink needs a replay file with a violation:", err)
		os.Exit(2)
	}
	e := engineFor(rf.Property, "")
	plan, err := e.Decode(rf.Plan)
	if err != nil {
		fmt.Fprintln(os.Stderr, "simworker:", err)
		os.Exit(2)
	}
	applyEnv(rf)
	var test detsim.Tester
	fresh := false
	if fp, ok := e.(detsim.FreshProcesser); ok && fp.FreshProcess(plan) {
		fresh = true
	}
	if *sub || fresh || rf.Violation.Class == "race" {
		test = detsim.SubprocessTester(e, rf, filepath.Dir(*out), rf.Violation)
	} else {
		inner := detsim.InProcessTester(e, rf.Violation)
		test = func(p interface{}, c []detsim.Choice) (bool, []detsim.Choice, *detsim.RunReport) {
			atomic.StoreInt32(&simRunning, 1)
			defer atomic.StoreInt32(&simRunning, 0)
			return inner(p, c)
		}
	}
	// the starting point must fail, otherwise there is nothing to minimise
	ok, rec, rep0 := test(plan, rf.Choices)
	if !ok {
		fmt.Println("SHRINK start does not reproduce")
		rf.Note = "minimisation skipped: the recorded run did not reproduce under the lenient chooser"
		rf.Write(*out)
		os.Exit(0)
	}
	p2, c2, steps := detsim.Minimise(e, plan, rec, test, *budget)
	ok, rec, rep := test(p2, c2)
	if !ok {
		// flaky final confirmation: fall back to the start
		p2, rec, rep, steps = plan, rf.Choices, rep0, 0
	}
	raw, _ := json.Marshal(p2)
	o := *rf
	o.Plan, o.Choices, o.Minimised, o.ShrinkSteps = raw, rec, steps > 0, steps
	if rep != nil && rep.V != nil {
		o.Violation = rep.V
	}
	if rep != nil && rep.LogHash != 0 {
		o.EventLogHash = fmt.Sprintf("%016x", rep.LogHash)
	}
	o.Write(*out)
	fmt.Printf("SHRINK steps=%d choices=%d->%d\n", steps, len(rf.Choices), len(rec))
}

// runFresh hands one run to a fresh process of this binary (plans that need
// the library's pristine built-in state).
func runFresh(e detsim.Engine, prop, tier string, seed, idx, runSeed uint64, plan interface{}, dir string) (*detsim.RunReport, []detsim.Choice, *detsim.Violation) {
	raw, _ := json.Marshal(plan)
	in := filepath.Join(dir, fmt.Sprintf("fresh-%d-%d.json", os.Getpid(), idx))
	outp := in + ".out"
	defer os.Remove(in)
	defer os.Remove(outp)
	rf := &detsim.ReplayFile{Property: prop, Engine: e.Name(), Tier: tier, BatchSeed: seed, Index: idx, RunSeed: runSeed, Plan: raw, Seeded: true, OneCPU: os.Getenv("VERIF_ONECPU"), Arch: arch()}
	if err := rf.Write(in); err != nil {
		fmt.Fprintln(os.Stderr, "simworker:", err)
		os.Exit(2)
	}
	cmd := exec.Command(os.Args[0], "replay", "-out", outp, in)
	env := os.Environ()
	if pfx := raceLogPrefix(); pfx != "" {
		env = append(env, "GORACE=halt_on_error=0 exitcode=66 history_size=7 atexit_sleep_ms=0 log_path="+in+".race")
		defer func() {
			m, _ := filepath.Glob(in + ".race.*")
			for _, f := range m {
				os.Remove(f)
			}
		}()
	}
	cmd.Env = env
	outb, err := cmd.CombinedOutput()
	if ee, ok := err.(*exec.ExitError); err != nil && (!ok || (ee.ExitCode() != 1 && ee.ExitCode() != 66)) {
		fmt.Fprintf(os.Stderr, "simworker: fresh-process run failed: %v\n%s\n", err, outb)
		os.Exit(2)
	}
	res, err := detsim.ReadReplay(outp)
	if err != nil || res.Report == nil {
		fmt.Fprintf(os.Stderr, "simworker: fresh-process run wrote no report: %v\n%s\n", err, outb)
		os.Exit(2)
	}
	fmt.Sscanf(res.EventLogHash, "%x", &res.Report.LogHash)
	return res.Report, res.Choices, res.Violation
}
