package main

import (
	"fmt"
	"os"

	"verifsim/detsim"
	"verifsim/e1"
)

func lookupEngine(prop, shape string) detsim.Engine {
	switch prop {
	case "C09", "C10":
		return e1.Engine{Shape: shape}
	}
	return nil
}

func oracleMain(args []string) {
	fmt.Fprintln(os.Stderr, "simworker: oracle mode not built yet")
	os.Exit(2)
}
