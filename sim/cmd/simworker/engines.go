package main

import (
	"os"

	"verifsim/detsim"
	"verifsim/e1"
	"verifsim/e2"
)

func lookupEngine(prop, shape string) detsim.Engine {
	switch prop {
	case "C09", "C10":
		return e1.Engine{Shape: shape}
	case "C08", "C11", "C12":
		return e2.Engine{}
	}
	return nil
}

func oracleMain(args []string) {
	e2.OracleServe(os.Stdin, os.Stdout)
}
