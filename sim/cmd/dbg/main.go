package main

import (
	"encoding/json"
	"fmt"
	"os"

	"verifsim/detsim"
	"verifsim/e2"
)

func main() {
	raw, _ := os.ReadFile(os.Args[1])
	p := &e2.Plan{}
	json.Unmarshal(raw, p)
	for seed := uint64(1); seed <= 40; seed++ {
		ch := &detsim.SeedChooser{R: detsim.NewRand(seed)}
		o := e2.Run(p, ch)
		fmt.Printf("seed %d: V=%v poolhit=%d cross=%d steps=%d\n", seed, o.V != nil, o.Res.PoolGetHit, o.Res.PoolCross, o.Res.Steps)
		if seed <= 2 {
			for _, h := range o.Hist {
				fmt.Printf("   c%d %d..%d %s -> %.90s\n", h.Client, h.Invoke, h.Return, h.Call, h.Got)
			}
		}
	}
}
