package main

import (
	"encoding/json"
	"fmt"
	"os"
	"os/exec"
	"path/filepath"
	"sort"
	"strings"
	"sync"
	"sync/atomic"
	"time"

	"verifsim/detsim"
	"verifsim/e3"
)

func buildCLI(s *scratch) (string, error) {
	bin := filepath.Join(s.dir, "protoc-go-valid")
	cmd := exec.Command("go", "build", "-o", bin, ".")
	cmd.Dir = repoDir()
	cmd.Env = append(os.Environ(), "GOFLAGS=-mod=mod", "GOPROXY=off", "GOSUMDB=off", "GOTOOLCHAIN=local")
	out, err := cmd.CombinedOutput()
	if err != nil {
		return "", fmt.Errorf("%v\n%s", err, out)
	}
	return bin, nil
}

// buildClockCLI builds the tool a second time, from a copy of the tree in which only the clock calls are redirected
// (simrewrite -clockonly): invocations "at" a simulated time run this binary with VERIF_CLOCK_UNIX set.
func buildClockCLI(s *scratch) (string, error) {
	simDir := filepath.Join(verifDir, "sim")
	if d := os.Getenv("VERIF_SIM"); d != "" {
		simDir = d
	}
	binDir := filepath.Join(verifDir, "bin")
	if d := os.Getenv("VERIF_BIN"); d != "" {
		binDir = d
	}
	env := append(os.Environ(), "GOFLAGS=-mod=mod", "GOPROXY=off", "GOSUMDB=off", "GOTOOLCHAIN=local")
	rw := filepath.Join(binDir, "simrewrite")
	if st, err := os.Stat(rw); err != nil || func() bool {
		src, e2 := os.Stat(filepath.Join(simDir, "tools", "simrewrite", "main.go"))
		return e2 == nil && src.ModTime().After(st.ModTime())
	}() {
		cmd := exec.Command("go", "build", "-o", rw, "./tools/simrewrite")
		cmd.Dir, cmd.Env = simDir, env
		if out, err := cmd.CombinedOutput(); err != nil {
			return "", fmt.Errorf("building simrewrite: %v\n%s", err, out)
		}
	}
	dst := filepath.Join(s.dir, "clockrepo")
	if out, err := exec.Command(rw, "-src", repoDir(), "-dst", dst, "-clockonly").CombinedOutput(); err != nil {
		return "", fmt.Errorf("simrewrite -clockonly: %v\n%s", err, out)
	}
	gm, err := os.ReadFile(filepath.Join(dst, "go.mod"))
	if err != nil {
		return "", err
	}
	gm = append(gm, []byte("\nreplace verifsim/simsync => "+filepath.Join(simDir, "simsync")+"\n")...)
	if err := os.WriteFile(filepath.Join(dst, "go.mod"), gm, 0o644); err != nil {
		return "", err
	}
	bin := filepath.Join(s.dir, "protoc-go-valid.clock")
	cmd := exec.Command("go", "build", "-o", bin, ".")
	cmd.Dir, cmd.Env = dst, env
	if out, err := cmd.CombinedOutput(); err != nil {
		return "", fmt.Errorf("%v\n%s", err, out)
	}
	return bin, nil
}

type e3item struct {
	idx  uint64
	plan *e3.Plan
}

type e3found struct {
	idx  uint64
	plan *e3.Plan
	v    *detsim.Violation
	hash uint64
}

func runE3(prop, tier string, seed uint64) int {
	start := time.Now()
	s, err := newScratch(prop)
	if err != nil {
		return trouble("%v", err)
	}
	defer s.remove()
	cli, err := buildCLI(s)
	if err != nil {
		return trouble("building the CLI from %s failed: %v", repoDir(), err)
	}
	clockCLI, err := buildClockCLI(s)
	if err != nil {
		return trouble("building the CLI with a redirected clock from %s failed: %v", repoDir(), err)
	}
	e3.ClockCLI = clockCLI
	buildS := time.Since(start).Seconds()
	tree := treeHash(repoDir())
	fmt.Printf("vcheck: property=%s tier=%s VERIF_SEED=%d tree=%s engine=%s build=%.1fs\n", prop, tier, seed, tree, e3.EngineName, buildS)

	// work list
	var seededN uint64
	var maxWall time.Duration
	level := "exploration"
	switch {
	case prop == "C07" && tier == "quick":
		seededN, maxWall = 2400, 90*time.Second // sized by count (see check.go): the wall limit is a safety net
	case prop == "C07":
		seededN, maxWall = 400000, 10*time.Minute
	case prop == "C19" && tier == "quick":
		seededN, maxWall = 1200, 90*time.Second
	default:
		seededN, maxWall = 300000, 10*time.Minute
	}
	var systematic []*e3.Plan
	if prop == "C19" {
		level = "fault_enumeration"
		systematic = e3.SystematicC19(seed)
	}
	items := make(chan e3item, 64)
	deadline := start.Add(maxWall)
	go func() {
		defer close(items)
		for i, p := range systematic {
			items <- e3item{uint64(1_000_000_000 + i), p} // the systematic sweep always runs completely
		}
		for i := uint64(0); i < seededN; i++ {
			if time.Now().After(deadline) {
				return
			}
			r := detsim.NewRand(detsim.Mix(seed, prop+"/"+tier, i))
			var p *e3.Plan
			if prop == "C07" {
				p = e3.GenC07(r)
			} else {
				p = e3.GenC19(r)
			}
			items <- e3item{i, p}
		}
	}()
	solo := e3.NewSoloCache(cli, filepath.Join(s.dir, "solo"))
	var mu sync.Mutex
	probes, faults := detsim.Counter{}, detsim.Counter{}
	var evals, nontriv, invocations int64
	distinct := map[uint64]struct{}{}
	var samples []interface{}
	var found []e3found
	var hashXor uint64
	var wg sync.WaitGroup
	var hangs int32
	for w := 0; w < 16; w++ {
		wg.Add(1)
		go func(w int) {
			defer wg.Done()
			root := filepath.Join(s.dir, fmt.Sprintf("w%d", w), "root")
			for it := range items {
				if atomic.LoadInt32(&hangs) >= 4 {
					continue // a tool that spins on some input costs seconds of CPU per invocation: four such findings are enough, the rest of the batch is skipped
				}
				o := e3.RunPlan(cli, root, solo, it.plan)
				if o.V != nil && strings.Contains(o.V.Detail, "hang:") {
					atomic.AddInt32(&hangs, 1)
				}
				raw, _ := json.Marshal(it.plan)
				mu.Lock()
				evals++
				invocations += int64(o.Invocations)
				probes.Merge(o.Probes)
				faults.Merge(o.Faults)
				hashXor ^= detsim.HashAdd(o.Hash, it.idx)
				if o.NonTrivial {
					nontriv++
					distinct[detsim.Hash64(string(raw))] = struct{}{}
					if len(samples) < 3 {
						samples = append(samples, samplePlan(it.plan, o))
					}
				}
				if o.V != nil && len(found) < 200 {
					found = append(found, e3found{it.idx, it.plan, o.V, o.Hash})
				}
				mu.Unlock()
			}
		}(w)
	}
	wg.Wait()
	if evals == 0 {
		return trouble("no history was executed")
	}
	for _, f := range found {
		if f.v.Class == "harness" {
			return trouble("harness failure while executing a plan: %s", f.v.Detail)
		}
	}
	// violations: one per signature, smallest plan first
	sort.Slice(found, func(i, j int) bool {
		a, _ := json.Marshal(found[i].plan)
		b, _ := json.Marshal(found[j].plan)
		if len(a) != len(b) {
			return len(a) < len(b)
		}
		return found[i].idx < found[j].idx
	})
	known := loadKnown()
	seen := map[string]bool{}
	var lines []string
	nviol := 0
	exit := 0
	var unreproduced []string
	shrinkBudget := 20 * time.Second
	if tier == "thorough" {
		shrinkBudget = 60 * time.Second
	}
	for _, f := range found {
		sig := f.v.Signature(prop)
		if seen[sig] {
			continue
		}
		seen[sig] = true
		root := filepath.Join(s.dir, "shrink", "root")
		same := func(p *e3.Plan) (bool, *e3.Outcome) {
			o := e3.RunPlan(cli, root, solo, p)
			return o.V != nil && o.V.Class == f.v.Class && o.V.Sub == f.v.Sub, o
		}
		// confirm on a fresh directory with a fresh solo cache (nothing memoised)
		fresh := e3.NewSoloCache(cli, filepath.Join(s.dir, "solo-confirm"))
		o1 := e3.RunPlan(cli, root, fresh, f.plan)
		attempts := 1
		for ; attempts < 8 && (o1.V == nil || o1.V.Class != f.v.Class || o1.V.Sub != f.v.Sub); attempts++ {
			// the tool is a real process: if it starts threads of its own, their interleaving is not the simulator's to decide
			o1 = e3.RunPlan(cli, root, fresh, f.plan)
		}
		if o1.V == nil || o1.V.Class != f.v.Class || o1.V.Sub != f.v.Sub {
			// not reported: without a history that shows it again there is nothing to replay. If another signature of this batch
			// does recur, that one is reported; if none does, the check ends with exit 2 (below)
			unreproduced = append(unreproduced, fmt.Sprintf("%s (history %d)", sig, f.idx))
			continue
		}
		confirmNote := "confirmed on a fresh directory"
		if attempts > 1 {
			confirmNote = fmt.Sprintf("seen again on a fresh directory at attempt %d of 8: the tool's behaviour on this history is not deterministic (threads of its own?); a replay tries up to 8 times", attempts)
		}
		min, steps := e3.Shrink(f.plan, func(p *e3.Plan) bool { ok, _ := same(p); return ok }, shrinkBudget)
		ok, o2 := same(min)
		if !ok {
			min, steps, o2 = f.plan, 0, o1
		}
		path := filepath.Join(outDir(), "replays", fmt.Sprintf("%s-%d-%d-%s.json", prop, seed, f.idx, f.v.Class))
		if err := e3.WriteReplay(path, prop, tier, seed, f.idx, tree, min, o2.V, o2.Hash, steps > 0, steps, confirmNote); err != nil {
			return trouble("%v", err)
		}
		if k := known.match(prop, sig); k != nil {
			lines = append(lines, fmt.Sprintf("KNOWN-FINDING: property=%s %s (%s) replay=%s", prop, k.What, sig, path))
			continue
		}
		nviol++
		exit = 1
		d := o2.V.Detail
		if len(d) > 1800 {
			d = d[:1800] + "..."
		}
		lines = append(lines, fmt.Sprintf("VIOLATION property=%s replay=%s\n  signature=%s (minimised in %d steps)\n  %s", prop, path, sig, steps, strings.ReplaceAll(d, "\n", "\n  ")))
	}
	wall := time.Since(start).Seconds()
	rule := "seeded histories of 2..8 invocations (-f / -d / -p drawn per invocation) of the real CLI over a generated directory of 1..6 protoc-gen-go shaped files, with fault events (file broken, replaced, foreign entry added) and heal events between invocations, ending with a -d run plus 1..3 further runs; after every invocation: a file already processed in exactly its current content is unchanged, a file without @tag is unchanged, and every processable file equals its solo result; non-trivial = an annotated file was processed at least twice and some injected key overrode an existing key; distinct = distinct plan"
	assume := []string{"sampling, not enumeration", "the tool is single-threaded and ReadDir/Glob return sorted names, so one invocation is deterministic",
		"oracles are differential (run vs run, file vs its solo result): an edit that corrupts every run identically but stays idempotent and isolated violates C06, not C07/C19"}
	if prop == "C19" {
		rule = fmt.Sprintf("systematic sweep (every run): %d fault kinds x position {first, middle, last} x mode {-d, -p, -f on the bad entry then -d} x {one, two} bad entries = %d directory cases with 2..4 healthy annotated neighbours; plus seeded directories of 2..8 entries with a random subset bad and 1..3 invocations; after every invocation: no crash, non-.go / unparsable / non-regular entries byte-identical, every processable .go file equals its solo result, out-of-scope files untouched; non-trivial = at least one bad and one healthy annotated entry in the scope of the same invocation; distinct = distinct plan", len(e3.AllFaultKinds()), len(systematic))
		assume = append(assume, "\"does not parse\" is decided by go/parser (same toolchain as the CLI build) on the bytes before the run", "torn writes / crashes of the CLI itself are not injected: no listed property constrains them")
	}
	cov := map[string]interface{}{
		"evaluations":           evals,
		"distinct_nontrivial":   int64(len(distinct)),
		"rule":                  rule,
		"samples":               samples,
		"exhaustive":            false,
		"systematic_cases":      len(systematic),
		"nontrivial_histories":  nontriv,
		"cli_invocations":       invocations,
		"simulated_time_note":   "the tool has no clock; simulated time is reported as invocations",
		"histories_per_hour":    int64(float64(evals) / wall * 3600),
		"fault_kinds_fired":     counterJSON(faults),
		"probes":                counterJSON(probes),
		"components":            map[string]interface{}{"real": []string{"the CLI binary built from the working tree (main.go, file/, log/)", "the kernel file system (scratch directory)"}, "stub": []string{}},
		"repo_tree_hash":        tree,
		"build_s":               buildS,
		"event_log_xor":         fmt.Sprintf("%016x", hashXor),
		"solo_results_computed": "memoised per content hash",
	}
	ev := &evidence{PropertyID: prop, Tier: tier, Seed: int64(seed), Level: level, Coverage: cov, Assumptions: assume, WallS: wall, Violations: nviol}
	if err := writeEvidence(ev); err != nil {
		return trouble("%v", err)
	}
	fmt.Printf("vcheck: %d histories, %d CLI invocations, %d distinct non-trivial, %.1fs\n", evals, invocations, len(distinct), wall)
	for _, l := range lines {
		fmt.Println(l)
	}
	for _, u := range unreproduced {
		fmt.Printf("vcheck: seen once and not again in 8 runs of the same history on a fresh directory: %s\n", u)
	}
	if exit == 0 && len(unreproduced) > 0 {
		return trouble("%d violation(s) were observed but none recurred when the history was run again (the tool is a real process; threads of its own are outside the simulator's control) - nothing replayable to report", len(unreproduced))
	}
	if exit == 0 {
		if prop == "C19" {
			// every fault kind must have been in scope together with a healthy annotated file, in -d and in -p mode
			var missing []string
			for _, k := range e3.AllFaultKinds() {
				for _, mode := range []string{e3.EvRunD, e3.EvRunP} {
					if k == "unannotated" || (mode == e3.EvRunD && faultProbeName(k) == e3.KDir) {
						continue // a valid file without annotations is not a fault; -d never hands a directory to the per-file routine
					}
					if probes["bad_with_healthy_neighbour|"+faultProbeName(k)+"|"+mode] == 0 {
						missing = append(missing, k+"/"+mode)
					}
				}
			}
			if len(missing) > 0 {
				return trouble("fault kinds that never met a healthy neighbour in scope: %v", missing)
			}
		}
		if len(distinct) < 2 {
			return trouble("fewer than 2 distinct non-trivial histories")
		}
		fmt.Printf("vcheck: property=%s held on everything explored\n", prop)
	}
	return exit
}

// faultProbeName maps a fault kind of the catalogue to the label RunPlan uses.
func faultProbeName(k string) string {
	if strings.HasPrefix(k, "sibling:") {
		return e3.KText
	}
	switch k {
	case "text-file", "bak-file":
		return e3.KText
	case "dir", "dir-named-go":
		return e3.KDir
	case "dangling-symlink-go", "dangling-symlink", "symlink-to-dir-go", "symlink-to-go-file", "symlink-aliases-x8":
		return e3.KSymlink
	}
	return k
}

func samplePlan(p *e3.Plan, o *e3.Outcome) interface{} {
	type ent struct {
		Name  string `json:"name"`
		Kind  string `json:"kind"`
		Break string `json:"break,omitempty"`
		Shape string `json:"shape,omitempty"`
		Bytes int    `json:"bytes"`
	}
	var es []ent
	first := ""
	for i := range p.Entries {
		e := &p.Entries[i]
		c := e.Content()
		if first == "" && e.Kind == e3.KGo {
			first = c
			if len(first) > 1500 {
				first = first[:1500] + "..."
			}
		}
		es = append(es, ent{e.Name, e.Kind, e.Break, e.Shape, len(c)})
	}
	var evs []string
	for _, e := range p.Events {
		t := e.Target
		if e.Entry != nil {
			t = e.Entry.Name + " <- " + e.Entry.Kind + " " + e.Entry.Break + e.Entry.Shape
		}
		evs = append(evs, e.Op+" "+t)
	}
	return map[string]interface{}{"case": p.Case, "entries": es, "events": evs, "cli_invocations": o.Invocations, "first_file": first}
}

func replayE3(path string) int {
	rf, err := detsim.ReadReplay(path)
	if err != nil {
		return trouble("%v", err)
	}
	p := &e3.Plan{}
	if err := json.Unmarshal(rf.Plan, p); err != nil {
		return trouble("%v", err)
	}
	s, err := newScratch("replay")
	if err != nil {
		return trouble("%v", err)
	}
	defer s.remove()
	cli, err := buildCLI(s)
	if err != nil {
		return trouble("building the CLI failed: %v", err)
	}
	if clockCLI, err := buildClockCLI(s); err != nil {
		return trouble("building the CLI with a redirected clock from %s failed: %v", repoDir(), err)
	} else {
		e3.ClockCLI = clockCLI
	}
	o := e3.RunPlan(cli, filepath.Join(s.dir, "root"), e3.NewSoloCache(cli, filepath.Join(s.dir, "solo")), p)
	for a := 1; a < 8 && o.V == nil && rf.Violation != nil && strings.Contains(rf.Note, "not deterministic"); a++ {
		o = e3.RunPlan(cli, filepath.Join(s.dir, "root"), e3.NewSoloCache(cli, filepath.Join(s.dir, "solo")), p)
	}
	hash := fmt.Sprintf("%016x", o.Hash)
	if o.V == nil {
		fmt.Printf("REPLAY property=%s no violation hash=%s\n", rf.Property, hash)
		return 0
	}
	same := rf.Violation != nil && rf.Violation.Class == o.V.Class && rf.Violation.Sub == o.V.Sub
	fmt.Printf("REPLAY property=%s violation=%s hash=%s same_class=%v same_hash=%v\n%s\n", rf.Property, o.V.Signature(rf.Property), hash, same, hash == rf.EventLogHash, o.V.Detail)
	fmt.Printf("VIOLATION property=%s replay=%s\n", rf.Property, path)
	return 1
}
