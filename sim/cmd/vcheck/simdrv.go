package main

import (
	"crypto/sha256"
	"encoding/json"
	"fmt"
	"io/fs"
	"os"
	"os/exec"
	"path/filepath"
	"sort"
	"strconv"
	"strings"
	"sync"
	"time"

	"verifsim/detsim"
)

// budget of one property and tier for the simulator engines
type budget struct {
	race    bool
	runs    uint64        // run indices are split among the workers
	maxWall time.Duration // each worker stops drawing new runs after this
	workers int
	extra   []string // extra worker arguments
}

type propSpec struct {
	id       string
	engine   string
	level    string
	rule     string
	assume   []string
	quick    budget
	thorough budget
}

func repoDir() string {
	if d := os.Getenv("VERIF_REPO"); d != "" {
		return d
	}
	return "/repo"
}

// treeHash hashes the non-test Go sources and go.mod of the working tree.
func treeHash(dir string) string {
	h := sha256.New()
	var files []string
	filepath.WalkDir(dir, func(p string, d fs.DirEntry, err error) error {
		if err != nil {
			return nil
		}
		if d.IsDir() && d.Name() == ".git" {
			return filepath.SkipDir
		}
		if !d.IsDir() && (strings.HasSuffix(p, ".go") || d.Name() == "go.mod") && !strings.HasSuffix(p, "_test.go") {
			files = append(files, p)
		}
		return nil
	})
	sort.Strings(files)
	for _, f := range files {
		b, _ := os.ReadFile(f)
		rel, _ := filepath.Rel(dir, f)
		fmt.Fprintf(h, "%s %d\n", rel, len(b))
		h.Write(b)
	}
	return fmt.Sprintf("%x", h.Sum(nil))[:16]
}

type scratch struct {
	dir string
}

func newScratch(tag string) (*scratch, error) {
	d, err := os.MkdirTemp("", "verif-"+tag+"-")
	if err != nil {
		return nil, err
	}
	return &scratch{dir: d}, nil
}

func (s *scratch) remove() { os.RemoveAll(s.dir) }

func (s *scratch) build(mode string) error {
	simDir := filepath.Join(verifDir, "sim")
	if d := os.Getenv("VERIF_SIM"); d != "" {
		simDir = d // development: another copy of the simulator sources (mkscratch.sh honours the same variable)
	}
	cmd := exec.Command(filepath.Join(simDir, "mkscratch.sh"), s.dir, mode)
	cmd.Stdout = os.Stderr
	cmd.Stderr = os.Stderr
	return cmd.Run()
}

func rssKB(pid int) int64 {
	b, err := os.ReadFile(fmt.Sprintf("/proc/%d/status", pid))
	if err != nil {
		return 0
	}
	for _, l := range strings.Split(string(b), "\n") {
		if strings.HasPrefix(l, "VmRSS:") {
			f := strings.Fields(l)
			if len(f) >= 2 {
				v, _ := strconv.ParseInt(f[1], 10, 64)
				return v
			}
		}
	}
	return 0
}

// runWorker runs one worker process with an RSS guard; trouble -> error.
func runWorker(bin string, env []string, args []string, logPath string, hardWall time.Duration) error {
	cmd := exec.Command(bin, args...)
	cmd.Env = append(os.Environ(), env...)
	lf, err := os.Create(logPath)
	if err != nil {
		return err
	}
	defer lf.Close()
	cmd.Stdout = lf
	cmd.Stderr = lf
	if err := cmd.Start(); err != nil {
		return err
	}
	done := make(chan error, 1)
	go func() { done <- cmd.Wait() }()
	tick := time.NewTicker(500 * time.Millisecond)
	defer tick.Stop()
	deadline := time.After(hardWall)
	for {
		select {
		case err := <-done:
			if err == nil {
				return nil
			}
			if ee, ok := err.(*exec.ExitError); ok && ee.ExitCode() == 66 {
				return nil // the race detector's exit status; reports were handled per run
			}
			tail, _ := os.ReadFile(logPath)
			if len(tail) > 4000 {
				tail = tail[len(tail)-4000:]
			}
			return fmt.Errorf("worker %v: %v\n%s", args, err, tail)
		case <-tick.C:
			if rssKB(cmd.Process.Pid) > 3*1024*1024 {
				cmd.Process.Kill()
				<-done
				return fmt.Errorf("worker %v exceeded 3 GB RSS", args)
			}
		case <-deadline:
			cmd.Process.Kill()
			<-done
			return fmt.Errorf("worker %v exceeded the hard wall-clock limit %v", args, hardWall)
		}
	}
}

type merged struct {
	runs, steps, nontrivial, inconclusive int64
	counters, faults, probes              detsim.Counter
	inter, nontriv, states                map[uint64]struct{}
	interOv, nontrivOv, statesOv          int64
	samples                               []json.RawMessage
	violations                            []string
	wall                                  float64
	logXor                                uint64
	sysTotal                              uint64
}

func newMerged() *merged {
	return &merged{counters: detsim.Counter{}, faults: detsim.Counter{}, probes: detsim.Counter{},
		inter: map[uint64]struct{}{}, nontriv: map[uint64]struct{}{}, states: map[uint64]struct{}{}}
}

func (m *merged) add(r *detsim.BatchResult) {
	m.runs += r.Runs
	m.steps += r.Steps
	m.nontrivial += r.NonTrivial
	m.inconclusive += r.Inconclusive
	m.counters.Merge(r.Counters)
	m.faults.Merge(r.Faults)
	m.probes.Merge(r.Probes)
	for _, h := range r.Interleavings {
		m.inter[h] = struct{}{}
	}
	for _, h := range r.NonTrivialHashes {
		m.nontriv[h] = struct{}{}
	}
	for _, h := range r.States {
		m.states[h] = struct{}{}
	}
	m.interOv += r.InterleavingsOverflow
	m.nontrivOv += r.NonTrivialOverflow
	m.statesOv += r.StatesOverflow
	if len(m.samples) < 3 {
		for _, s := range r.Samples {
			if len(m.samples) < 3 {
				m.samples = append(m.samples, s)
			}
		}
	}
	m.violations = append(m.violations, r.Violations...)
	if r.WallS > m.wall {
		m.wall = r.WallS
	}
	m.logXor ^= r.LogHashXor
	if r.SystematicTotal > m.sysTotal {
		m.sysTotal = r.SystematicTotal
	}
}

// runBatch fans a range of run indices out to worker processes.
func runBatch(s *scratch, spec *propSpec, b budget, tier string, seed uint64, tree string) (*merged, error) {
	bin := filepath.Join(s.dir, "simworker")
	if b.race {
		bin += ".race"
	}
	w := b.workers
	if w <= 0 {
		w = 16
	}
	if uint64(w) > b.runs {
		w = int(b.runs)
	}
	rdir := filepath.Join(s.dir, "replays")
	os.MkdirAll(rdir, 0o755)
	os.MkdirAll(filepath.Join(s.dir, "race"), 0o755)
	chunk := (b.runs + uint64(w) - 1) / uint64(w)
	// the systematic corpus (if the engine has one for this property) is split evenly among the workers
	var sysTotal uint64
	if out, code := runTool(bin, nil, "systotal", spec.id, tier); code == 0 {
		fmt.Sscan(strings.TrimSpace(out), &sysTotal)
	}
	sysChunk := (sysTotal + uint64(w) - 1) / uint64(w)
	var wg sync.WaitGroup
	errs := make([]error, w)
	outs := make([]string, w)
	for i := 0; i < w; i++ {
		from := uint64(i) * chunk
		to := from + chunk
		if to > b.runs {
			to = b.runs
		}
		if from >= to {
			continue
		}
		outs[i] = filepath.Join(s.dir, fmt.Sprintf("res-%s-%d.json", spec.id, i))
		args := []string{"batch", "-prop", spec.id, "-tier", tier, "-seed", fmt.Sprint(seed), "-from", fmt.Sprint(from), "-to", fmt.Sprint(to),
			"-out", outs[i], "-replaydir", rdir, "-maxwall", b.maxWall.String(), "-tree", tree}
		if sysTotal > 0 {
			sf, st := uint64(i)*sysChunk, uint64(i+1)*sysChunk
			if sf > sysTotal {
				sf = sysTotal
			}
			if st > sysTotal {
				st = sysTotal
			}
			args = append(args, "-sysfrom", fmt.Sprint(sf), "-systo", fmt.Sprint(st))
		}
		args = append(args, b.extra...)
		env := []string{"GOMAXPROCS=2"}
		if i%4 == 3 {
			env = append(env, fmt.Sprintf("VERIF_ONECPU=%d", i)) // a quarter of the workers (and what they start) see a one-CPU machine
		}
		if b.race {
			env = append(env, "GORACE=halt_on_error=0 exitcode=66 history_size=7 atexit_sleep_ms=0 log_path="+filepath.Join(s.dir, "race", fmt.Sprintf("w%d", i)))
		}
		wg.Add(1)
		go func(i int, args, env []string) {
			defer wg.Done()
			errs[i] = runWorker(bin, env, args, filepath.Join(s.dir, fmt.Sprintf("worker-%d.log", i)), b.maxWall*3+5*time.Minute)
		}(i, args, env)
	}
	// one more worker: the 32-bit build repeats the seeded runs of the first worker (no race detector there)
	if bin32 := filepath.Join(s.dir, "simworker.386"); fileExists(bin32) && chunk > 0 {
		i := w
		w++
		errs = append(errs, nil)
		outs = append(outs, filepath.Join(s.dir, fmt.Sprintf("res-%s-%d.json", spec.id, i)))
		to := chunk
		if to > b.runs {
			to = b.runs
		}
		args := []string{"batch", "-prop", spec.id, "-tier", tier, "-seed", fmt.Sprint(seed), "-from", "0", "-to", fmt.Sprint(to),
			"-out", outs[i], "-replaydir", rdir, "-maxwall", b.maxWall.String(), "-tree", tree}
		if sysTotal > 0 {
			args = append(args, "-sysfrom", "0", "-systo", "0")
		}
		args = append(args, b.extra...)
		wg.Add(1)
		go func() {
			defer wg.Done()
			errs[i] = runWorker(bin32, []string{"GOMAXPROCS=2"}, args, filepath.Join(s.dir, fmt.Sprintf("worker-%d.log", i)), b.maxWall*3+5*time.Minute)
		}()
	}
	wg.Wait()
	m := newMerged()
	for i := 0; i < w; i++ {
		if errs[i] != nil {
			return nil, errs[i]
		}
		if outs[i] == "" {
			continue
		}
		data, err := os.ReadFile(outs[i])
		if err != nil {
			return nil, err
		}
		r := &detsim.BatchResult{}
		if err := json.Unmarshal(data, r); err != nil {
			return nil, err
		}
		m.add(r)
	}
	return m, nil
}

// ---------------------------------------------------------------- known findings

type knownFinding struct {
	Property  string `json:"property"`
	Signature string `json:"signature"`
	What      string `json:"what"`
}

type fixedFinding struct {
	Property string `json:"property"`
	Commit   string `json:"commit"`
	What     string `json:"what"`
}

type knownFile struct {
	Open  []knownFinding `json:"open"`
	Fixed []fixedFinding `json:"fixed"`
}

func loadKnown() *knownFile {
	k := &knownFile{}
	b, err := os.ReadFile(filepath.Join(verifDir, "known_findings.json"))
	if err != nil {
		return k
	}
	if err := json.Unmarshal(b, k); err != nil {
		fmt.Fprintln(os.Stderr, "vcheck: known_findings.json:", err)
		os.Exit(2)
	}
	return k
}

func (k *knownFile) match(prop, sig string) *knownFinding {
	for i := range k.Open {
		if k.Open[i].Property == prop && k.Open[i].Signature == sig {
			return &k.Open[i]
		}
	}
	return nil
}

// ---------------------------------------------------------------- violations: confirm, minimise, replay

type confirmed struct {
	sig    string
	path   string
	detail string
	note   string
}

func runTool(bin string, env []string, args ...string) (string, int) {
	cmd := exec.Command(bin, args...)
	cmd.Env = append(os.Environ(), env...)
	out, err := cmd.CombinedOutput()
	code := 0
	if err != nil {
		code = -1
		if ee, ok := err.(*exec.ExitError); ok {
			code = ee.ExitCode()
		}
	}
	return string(out), code
}

// processViolations confirms each distinct signature in a fresh process,
// minimises it and writes the replay file under /verif/replays.
// A semantic violation that does not reproduce is a harness defect -> error.
func processViolations(s *scratch, spec *propSpec, b budget, files []string, shrinkBudget time.Duration) ([]confirmed, error) {
	bin := filepath.Join(s.dir, "simworker")
	if b.race {
		bin += ".race"
	}
	bySig := map[string][]string{}
	var order []string
	sort.Strings(files)
	for _, f := range files {
		rf, err := detsim.ReadReplay(f)
		if err != nil {
			return nil, err
		}
		sig := rf.Violation.Signature(spec.id)
		if _, ok := bySig[sig]; !ok {
			order = append(order, sig)
		}
		bySig[sig] = append(bySig[sig], f)
	}
	sort.Strings(order)
	os.MkdirAll(filepath.Join(outDir(), "replays"), 0o755)
	res := make([]confirmed, len(order))
	errs := make([]error, len(order))
	var wg sync.WaitGroup
	sem := make(chan struct{}, 6)
	for i, sig := range order {
		wg.Add(1)
		sem <- struct{}{}
		go func(i int, sig string) {
			defer wg.Done()
			defer func() { <-sem }()
			budget := shrinkBudget
			if i >= 6 {
				budget = 0 // many distinct signatures: confirm all, minimise the first six
			}
			res[i], errs[i] = processOne(s, spec, b, bin, sig, bySig[sig], budget, i)
		}(i, sig)
	}
	wg.Wait()
	for _, e := range errs {
		if e != nil {
			return nil, e
		}
	}
	return res, nil
}

func processOne(s *scratch, spec *propSpec, b budget, bin, sig string, cands []string, shrinkBudget time.Duration, idx int) (confirmed, error) {
	{
		// prefer the smallest plan
		sort.SliceStable(cands, func(i, j int) bool {
			si, _ := os.Stat(cands[i])
			sj, _ := os.Stat(cands[j])
			return si.Size() < sj.Size()
		})
		f := cands[0]
		rf, _ := detsim.ReadReplay(f)
		if rf.Arch == "386" {
			bin = filepath.Join(s.dir, "simworker.386") // found by the 32-bit worker: confirmed and minimised on the same build
		}
		isRace := rf.Violation.Class == "race"
		// a disagreement between the long-lived reference process and a young one depends on what the long-lived one has
		// evaluated before, i.e. on the preceding runs of the worker: like a state-dependent race it may need them as warm-up
		stateDep := rf.Violation.Class == "reference-unstable"
		raceEnv := func(tag string) []string {
			if !b.race || rf.Arch == "386" {
				return nil
			}
			return []string{"GORACE=halt_on_error=0 exitcode=66 history_size=7 atexit_sleep_ms=0 log_path=" + filepath.Join(s.dir, "race", fmt.Sprintf("p%d-%s", idx, tag))}
		}
		// 1. confirm in a fresh process (strict replay)
		attempts, hits := 6, 0
		sameLogNoViolation := false
		var lastOut string
		tried := 0
		for a := 0; a < attempts && hits == 0; a++ {
			out, code := runTool(bin, raceEnv(fmt.Sprintf("confirm%d", a)), "replay", f)
			lastOut = out
			tried++
			if strings.Contains(out, "same_class=true") && (code == 1 || code == 66) {
				hits++
			} else if !isRace && !stateDep && (strings.Contains(out, "same_loghash=true") || (code == 0 && strings.Contains(out, "loghash="+rf.EventLogHash))) {
				// the same execution (same event log and results) without the violation: the oracle itself is not a function of the run
				sameLogNoViolation = true
				break
			}
			if code == 2 || code < 0 {
				return confirmed{}, fmt.Errorf("replay of %s failed (exit %d):\n%s", f, code, out)
			}
		}
		note := fmt.Sprintf("confirmed in a fresh process (attempt %d)", tried)
		warmed := false
		if hits == 0 && !sameLogNoViolation {
			// a race - or a wrong result - that depends on what earlier runs of the worker left in package-level tables of the
			// library or in std-internal pools: re-execute those runs first, in the same process
			out, code := runTool(bin, raceEnv("warm"), "replay", "-warmup", f)
			lastOut = out
			if strings.Contains(out, "same_class=true") && (code == 1 || code == 66) {
				hits++
				warmed = true
				note = "confirmed in a fresh process after re-executing the preceding runs of the finding worker as warm-up (the replay file says warm_up: true)"
				if wrf, err := detsim.ReadReplay(f); err == nil {
					wrf.WarmUp = true
					wrf.Write(f)
				}
			}
		}
		if warmed {
			shrinkBudget = 0
		}
		if hits == 0 {
			if sameLogNoViolation {
				return confirmed{}, fmt.Errorf("violation %s from %s: a fresh process reproduced the same event log but not the violation - the harness's oracle is nondeterministic, refusing to report:\n%s", sig, f, lastOut)
			}
			if stateDep {
				note = fmt.Sprintf("the two reference processes disagreed in the batch run; %d fresh-process replays and a warm-up replay did not bring the long-lived one into the same state; reported from the batch run", tried)
			} else if isRace {
				note = fmt.Sprintf("race report did not recur in %d fresh-process replays (std-internal pools can mask it, DESIGN 2.3); reported from the batch run", tried)
			} else {
				note = fmt.Sprintf("observed in the batch run by a per-execution oracle, but %d fresh-process replays took a different execution (event log differs): the code under test is nondeterministic beyond the simulator's seams; the replay file reproduces the plan and schedule, not necessarily the violation", tried)
			}
			shrinkBudget = 0
		}
		// 2. minimise
		final := filepath.Join(outDir(), "replays", filepath.Base(f))
		min := filepath.Join(s.dir, "min-"+filepath.Base(f))
		use := f
		out, code := "", 3
		if shrinkBudget > 0 {
			out, code = runTool(bin, raceEnv("shrink"), "shrink", "-budget", shrinkBudget.String(), "-out", min, f)
		} else {
			note += "; not minimised"
		}
		if code == 3 {
		} else if code == 0 || code == 66 {
			if _, err := os.Stat(min); err == nil {
				// 3. the minimised file must replay (strict) to the same class in a fresh process
				out2, code2 := runTool(bin, raceEnv("final"), "replay", min)
				if strings.Contains(out2, "same_class=true") && (code2 == 1 || code2 == 66) && !strings.Contains(out2, "REPLAY-DIVERGED") {
					use = min
				} else {
					note += "; minimised file did not replay strictly, keeping the original"
				}
			}
		} else {
			note += "; minimiser failed: " + strings.TrimSpace(out)
		}
		data, err := os.ReadFile(use)
		if err != nil {
			return confirmed{}, err
		}
		if err := os.WriteFile(final, data, 0o644); err != nil {
			return confirmed{}, err
		}
		frf, _ := detsim.ReadReplay(final)
		d := ""
		if frf != nil && frf.Violation != nil {
			d = frf.Violation.Detail
		}
		return confirmed{sig: sig, path: final, detail: d, note: note}, nil
	}
}

func fileExists(p string) bool {
	_, err := os.Stat(p)
	return err == nil
}
