package main

import (
	"encoding/json"
	"fmt"
	"os"
	"path/filepath"
	"strings"
	"time"

	"verifsim/detsim"
)

var realStub = map[string]interface{}{
	"real": []string{"all of valid/ (the working tree, copied)", "Go runtime and race detector", "container/list", "reflect", "regexp", "fmt", "strings"},
	"stub": []string{"package sync as seen by the repository's own packages (Mutex, RWMutex, Pool, Once, Map -> verifsim/simsync); the standard library keeps the real sync"},
}

// Quick tiers are sized by NUMBER OF RUNS, not by time: the same seed then does the same work on a fast and on a slow machine
// (a copy of this sandbox restored elsewhere ran 2.4 times slower than the one the checks were developed on), and the
// evidence file of one run describes every run. maxWall is a safety net about three times the expected duration.
func specs() map[string]*propSpec {
	m := map[string]*propSpec{}
	m["C09"] = &propSpec{id: "C09", engine: "E1-lru-simulator", level: "exploration",
		rule:     "systematic corpus (every run): every operation sequence of length 1..5 over {Store,Load,Delete} x 2 keys + Len + Dump on capacities 0..2 (thorough: length <= 6, and length <= 5 over 3 keys on capacities 0..3), with the removal callback registered; plus seeded single-client histories of Store/Load/Delete/Len/Dump (1..2000 ops, 2..5 keys or 4c+8 keys, capacities 0..4, 5, 8, 16, swarm operation mixes) refined step by step against a reference LRU; a run is non-trivial when it had >=1 eviction and >=1 (re-store of a live key or load hit); distinct = distinct hash of (capacity, operation list, event log)",
		assume:   []string{"sampling, not enumeration: a clean batch is evidence, not proof", "the reference model (e1/model.go) is the specification of an LRU as stated in C09", "Dump text is not judged under C09"},
		quick:    budget{race: false, runs: 120000, maxWall: 90 * time.Second},
		thorough: budget{race: false, runs: 60000000, maxWall: 8 * time.Minute}}
	m["C10"] = &propSpec{id: "C10", engine: "E1-lru-simulator", level: "exploration",
		rule:     "seeded schedules of 2..4 clients x 2..6 ops (small: linearizability of the recorded history against the reference LRU, lock-grant order as witness, porcupine otherwise) and 4..16 clients x 50..500 ops (large: invariants), and 2..5 clients loading / updating / dumping a full cache of capacity 256..700 (huge: every Dump must list each key exactly once), all under the race detector with the simulator's hand-offs hidden and the application's own lock/pool edges declared; a run is non-trivial when >=2 operations of different clients overlapped and >=1 entry was removed; distinct = distinct hash of (plan, event log)",
		assume:   []string{"sampling, not enumeration", "context switches happen at sync operations and between statements of valid/cache.go (P-yields, half of the runs); finer-grained interference is left to the race detector", "a race report is a verdict of Go's race detector on the simulated schedule"},
		quick:    budget{race: true, runs: 40000, maxWall: 90 * time.Second},
		thorough: budget{race: true, runs: 8000000, maxWall: 10 * time.Minute}}
	e2assume := []string{"sampling, not enumeration", "the reference is the real code run alone in an oracle process (fresh pools, always-miss cache): a defect that is present in isolation too is invisible here by design",
		"where a call iterates a Go map with more than one entry, error clauses are compared as a multiset (their order is unspecified)"}
	m["C08"] = &propSpec{id: "C08", engine: "E2-call-history-simulator", level: "exploration",
		rule:     "seeded histories of 20..860 struct-validation calls by one simulated client over more struct types than the cache holds (static multi-tag types, same-named types from two packages, and up to 560 reflect.StructOf types), tag names and per-call rule/function overrides drawn per call; cache configuration drawn per history (LRU 0/1/2/3/8/512, sync.Map, always-miss behind a fault-injecting wrapper; the built-in default, a bare sync.Map and a bare NewLRU(n) each in a fresh process) with injected cache faults (store lost, load miss with removal, flush); pools pinned to always-fresh in 3 of 5 histories (only the cache carries state) and recycling in the others; every result compared with the oracle process; non-trivial = a cache hit happened and (an eviction, an injected cache fault, or a second tag name for a cached type); for the built-in cache (not observable): a type was validated under two tag names or more than 512 distinct types were used",
		assume:   e2assume,
		quick:    budget{race: false, runs: 3200, maxWall: 90 * time.Second},
		thorough: budget{race: false, runs: 4000000, maxWall: 10 * time.Minute}}
	m["C12"] = &propSpec{id: "C12", engine: "E2-call-history-simulator", level: "exploration",
		rule:     "seeded histories of 10..600 heterogeneous calls (all struct entry points, Var, Map, Url, GetOnlyExplainErr, GenValidKV, ValidNamesSplit, GetDumpStructStr) by one simulated client, a quarter of them followed by a seeded permutation of the same calls; pools recycle LIFO / oldest-first / random with injected pool faults; small caches; a rule-text swarm for Var (every built-in rule with several argument variants); oracles: result equals the oracle process's (cross-checked for a quarter of the histories against a brand-new oracle process that sees the calls in reverse order), inputs deep-equal to a twin, every string handed out still reads as when handed out after the pools were churned; non-trivial = at least one pooled object was recycled and >= 2 calls ran",
		assume:   e2assume,
		quick:    budget{race: false, runs: 6400, maxWall: 150 * time.Second},
		thorough: budget{race: false, runs: 4000000, maxWall: 10 * time.Minute}}
	m["C11"] = &propSpec{id: "C11", engine: "E2-call-history-simulator", level: "exploration",
		rule:     "seeded schedules of 2..32 simulated clients x 1..8 calls (all entry points) over shared and private types (a third of the runs in focus mode: all clients inside the same one or two types or rule family) with small, default and overflowing caches, bare sync.Map / NewLRU configurations, cold-process runs, pool policies and pool/cache faults, under the race detector with the simulator's hand-offs hidden; every call's result compared with its solo result from the oracle process; non-trivial = >= 2 calls of different clients overlapped and (a pooled object crossed clients or a cached entry was hit)",
		assume:   append(e2assume, "a race report is a verdict of Go's race detector on the simulated schedule; pools inside the standard library keep the real sync.Pool and can mask (never invent) a report"),
		quick:    budget{race: true, runs: 2600, maxWall: 150 * time.Second},
		thorough: budget{race: true, runs: 3000000, maxWall: 10 * time.Minute}}
	return m
}

type evidence struct {
	PropertyID  string                 `json:"property_id"`
	Tier        string                 `json:"tier"`
	Seed        int64                  `json:"seed"`
	Level       string                 `json:"level"`
	Coverage    map[string]interface{} `json:"coverage"`
	Assumptions []string               `json:"assumptions"`
	WallS       float64                `json:"wall_s"`
	Violations  int                    `json:"violations"`
}

func writeEvidence(ev *evidence) error {
	os.MkdirAll(filepath.Join(outDir(), "evidence"), 0o755)
	b, err := json.MarshalIndent(ev, "", " ")
	if err != nil {
		return err
	}
	tmp := filepath.Join(outDir(), "evidence", ev.PropertyID+".json.tmp")
	if err := os.WriteFile(tmp, b, 0o644); err != nil {
		return err
	}
	return os.Rename(tmp, filepath.Join(outDir(), "evidence", ev.PropertyID+".json"))
}

func counterJSON(c detsim.Counter) map[string]int64 {
	o := map[string]int64{}
	for _, k := range c.Keys() {
		o[k] = c[k]
	}
	return o
}

func trouble(format string, a ...interface{}) int {
	fmt.Fprintf(os.Stderr, "vcheck: TROUBLE (exit 2, not a verdict): "+format+"\n", a...)
	return 2
}

func runCheck(prop, tier string, seed uint64) int {
	switch prop {
	case "C07", "C19":
		return runE3(prop, tier, seed)
	}
	spec := specs()[prop]
	if spec == nil {
		return trouble("no check for property %s", prop)
	}
	start := time.Now()
	b := spec.quick
	if tier == "thorough" {
		b = spec.thorough
	}
	s, err := newScratch(prop)
	if err != nil {
		return trouble("%v", err)
	}
	defer s.remove()
	mode := "norace"
	if b.race {
		mode = "race"
		if spec.engine == "E2-call-history-simulator" {
			mode = "both" // the oracle process is a plain build
		}
	}
	if err := s.build(mode); err != nil {
		return trouble("building the scratch copy of %s failed: %v", repoDir(), err)
	}
	buildS := time.Since(start).Seconds()
	tree := treeHash(repoDir())
	fmt.Printf("vcheck: property=%s tier=%s VERIF_SEED=%d tree=%s engine=%s build=%.1fs\n", prop, tier, seed, tree, spec.engine, buildS)
	m, err := runBatch(s, spec, b, tier, seed, tree)
	if err != nil {
		return trouble("%v", err)
	}
	if m.runs == 0 {
		return trouble("no run was executed")
	}
	if m.inconclusive*100 > m.runs {
		return trouble("%d of %d runs were inconclusive (step cap or linearizability timeout) - the check no longer decides", m.inconclusive, m.runs)
	}
	if m.sysTotal > 0 && uint64(m.counters["systematic_cases_run"]) < m.sysTotal && len(m.violations) == 0 {
		return trouble("only %d of the %d systematic cases ran (wall budget too small for this machine) - the check would silently cover less than it states", m.counters["systematic_cases_run"], m.sysTotal)
	}
	shrinkBudget := 20 * time.Second
	if tier == "thorough" {
		shrinkBudget = 60 * time.Second
	}
	conf, err := processViolations(s, spec, b, m.violations, shrinkBudget)
	if err != nil {
		return trouble("%v", err)
	}
	known := loadKnown()
	exit := 0
	nviol := 0
	var lines []string
	for _, c := range conf {
		if k := known.match(prop, c.sig); k != nil {
			lines = append(lines, fmt.Sprintf("KNOWN-FINDING: property=%s %s (%s) replay=%s", prop, k.What, c.sig, c.path))
			continue
		}
		nviol++
		exit = 1
		first := c.detail
		if i := strings.Index(first, "\n\n"); i > 0 && i < 1500 {
			// keep the first stack of a race report
		}
		if len(first) > 1500 {
			first = first[:1500] + "..."
		}
		lines = append(lines, fmt.Sprintf("VIOLATION property=%s replay=%s\n  signature=%s  %s\n  %s", prop, c.path, c.sig, c.note, strings.ReplaceAll(first, "\n", "\n  ")))
	}
	wall := time.Since(start).Seconds()
	distinctNT := int64(len(m.nontriv)) // exact for the kept part; overflowed entries are not counted (conservative)
	samples := []interface{}{}
	for _, sm := range m.samples {
		var v interface{}
		json.Unmarshal(sm, &v)
		samples = append(samples, v)
	}
	cov := map[string]interface{}{
		"evaluations":                        m.runs,
		"distinct_nontrivial":                distinctNT,
		"rule":                               spec.rule,
		"samples":                            samples,
		"exhaustive":                         false,
		"nontrivial_runs":                    m.nontrivial,
		"nontrivial_distinct_is_lower_bound": m.nontrivOv > 0,
		"simulated_runs":                     m.runs,
		"scheduler_steps_total":              m.steps,
		"simulated_time_note":                "the library can only read the simulated clock (its time.Now/Since/Until/Sleep calls are redirected in the scratch copy): 1 us per scheduler step in three of the four clock modes, plus sleeps and leaps; counters.simulated_clock_us is the simulated time covered, counters.clock_readings how often the code looked (0 = this tree never reads a clock)",
		"runs_per_hour":                      int64(float64(m.runs) / wall * 3600),
		"run_index_range":                    fmt.Sprintf("batch seed %d, seeded run indices 0..%d split over %d worker processes (a worker stops drawing seeded runs at its wall budget; the systematic corpus, if any, is split evenly among the workers and always runs completely; 'evaluations' is what actually ran)", seed, b.runs, 16),
		"distinct_interleavings":             len(m.inter),
		"distinct_interleavings_measure":     "distinct hashes of the sequence of (task, operation kind) at context switches",
		"distinct_interleavings_lower_bound": m.interOv > 0,
		"distinct_model_states":              len(m.states),
		"systematic_cases_total":             m.sysTotal,
		"systematic_cases_run":               m.counters["systematic_cases_run"],
		"fault_kinds_fired":                  counterJSON(m.faults),
		"probes":                             counterJSON(m.probes),
		"counters":                           counterJSON(m.counters),
		"inconclusive_runs":                  m.inconclusive,
		"components":                         realStub,
		"race_detector":                      b.race,
		"repo_tree_hash":                     tree,
		"build_s":                            buildS,
		"event_log_xor":                      fmt.Sprintf("%016x", m.logXor),
	}
	ev := &evidence{PropertyID: prop, Tier: tier, Seed: int64(seed), Level: spec.level, Coverage: cov, Assumptions: spec.assume, WallS: wall, Violations: nviol}
	if err := writeEvidence(ev); err != nil {
		return trouble("%v", err)
	}
	fmt.Printf("vcheck: %d runs, %d scheduler steps, %d distinct interleavings, %d distinct non-trivial, %.1fs\n", m.runs, m.steps, len(m.inter), distinctNT, wall)
	var zero []string
	for _, k := range m.probes.Keys() {
		if m.probes[k] == 0 {
			zero = append(zero, k)
		}
	}
	if len(zero) > 0 {
		fmt.Printf("vcheck: probes at zero in this run: %s\n", strings.Join(zero, ", "))
	}
	for _, l := range lines {
		fmt.Println(l)
	}
	if exit == 0 {
		if distinctNT < 2 {
			return trouble("fewer than 2 distinct non-trivial runs: the workload explores nothing")
		}
		fmt.Printf("vcheck: property=%s held on everything explored\n", prop)
	}
	return exit
}

// replayFile rebuilds the scratch copy from the current tree and replays one file.
func replayFile(path string) int {
	rf, err := detsim.ReadReplay(path)
	if err != nil {
		return trouble("%v", err)
	}
	if rf.Engine == "E3-injector-directory-simulator" {
		return replayE3(path)
	}
	s, err := newScratch("replay")
	if err != nil {
		return trouble("%v", err)
	}
	defer s.remove()
	race := rf.Property == "C10" || rf.Property == "C11"
	mode := "norace"
	bin := filepath.Join(s.dir, "simworker")
	var env []string
	if race {
		mode = "both"
		bin += ".race"
		os.MkdirAll(filepath.Join(s.dir, "race"), 0o755)
		env = []string{"GORACE=halt_on_error=0 exitcode=66 history_size=7 atexit_sleep_ms=0 log_path=" + filepath.Join(s.dir, "race", "replay")}
	}
	if err := s.build(mode); err != nil {
		return trouble("build failed: %v", err)
	}
	if rf.Arch == "386" {
		bin, env = filepath.Join(s.dir, "simworker.386"), nil
		if !fileExists(bin) {
			return trouble("the replay file comes from the 32-bit worker, which could not be built here")
		}
	}
	out, code := runTool(bin, env, "replay", path)
	fmt.Print(out)
	switch code {
	case 0:
		return 0
	case 1, 66:
		fmt.Printf("VIOLATION property=%s replay=%s\n", rf.Property, path)
		return 1
	}
	return 2
}
