package main

func runE3(prop, tier string, seed uint64) int { return trouble("E3 not built yet") }
func replayE3(path string) int                 { return trouble("E3 not built yet") }
