// vcheck is the driver of every check registered in MANIFEST.json.
//
//	vcheck run <property> --tier quick|thorough
//	vcheck replay <file>
//	vcheck selftest determinism [<property>...]
//
// Exit status: 0 the property held on everything explored (KNOWN-FINDING
// lines allowed), 1 with a line "VIOLATION property=<id> replay=<path>",
// 2 build / watchdog / inconclusive trouble (never a violation).
package main

import (
	"fmt"
	"os"
	"strconv"
)

const verifDir = "/verif"

// outDir is where evidence/ and replays/ are written: /verif, or $VERIF_OUT
// (used when the checks are pointed at a scratch copy with a planted bug).
func outDir() string {
	if d := os.Getenv("VERIF_OUT"); d != "" {
		return d
	}
	return verifDir
}

func usage() {
	fmt.Fprintln(os.Stderr, "usage: vcheck run <property> [--tier quick|thorough] | replay <file> | selftest determinism [props]")
	os.Exit(2)
}

func envSeed(def uint64) uint64 {
	if s := os.Getenv("VERIF_SEED"); s != "" {
		if v, err := strconv.ParseUint(s, 10, 64); err == nil {
			return v
		}
		if v, err := strconv.ParseInt(s, 10, 64); err == nil {
			return uint64(v)
		}
	}
	return def
}

func main() {
	if len(os.Args) < 2 {
		usage()
	}
	switch os.Args[1] {
	case "run":
		if len(os.Args) < 3 {
			usage()
		}
		prop := os.Args[2]
		tier := os.Getenv("VERIF_TIER")
		if tier == "" {
			tier = "quick"
		}
		for i := 3; i < len(os.Args); i++ {
			if os.Args[i] == "--tier" && i+1 < len(os.Args) {
				tier = os.Args[i+1]
				i++
			}
		}
		if tier != "quick" && tier != "thorough" {
			usage()
		}
		os.Exit(runCheck(prop, tier, envSeed(1)))
	case "replay":
		if len(os.Args) < 3 {
			usage()
		}
		os.Exit(replayFile(os.Args[2]))
	case "selftest":
		if len(os.Args) < 3 {
			usage()
		}
		switch os.Args[2] {
		case "determinism":
			os.Exit(selftestDeterminism(os.Args[3:]))
		}
		usage()
	default:
		usage()
	}
}
