package main

import (
	"encoding/json"
	"fmt"
	"os"
	"path/filepath"
	"sync"

	"verifsim/detsim"
)

// selftestDeterminism runs, per property, many batch seeds several times in
// separate processes at GOMAXPROCS 1/4/16 and compares event-log hashes,
// step totals and counters. Any difference is exit 1.
func selftestDeterminism(props []string) int {
	if len(props) == 0 {
		props = []string{"C09", "C10", "C08", "C12", "C11"}
	}
	sp := specs()
	s, err := newScratch("selftest")
	if err != nil {
		return trouble("%v", err)
	}
	defer s.remove()
	if err := s.build("both"); err != nil {
		return trouble("build failed: %v", err)
	}
	os.MkdirAll(filepath.Join(s.dir, "race"), 0o755)
	os.MkdirAll(filepath.Join(s.dir, "replays"), 0o755)
	bad := 0
	for _, p := range props {
		spec := sp[p]
		if spec == nil {
			fmt.Printf("selftest: %s has no simulator check, skipped\n", p)
			continue
		}
		bin := filepath.Join(s.dir, "simworker")
		if spec.quick.race {
			bin += ".race"
		}
		const seeds = 32
		runs := uint64(150)
		type key struct{ seed, variant int }
		sums := map[key]string{}
		var mu sync.Mutex
		var wg sync.WaitGroup
		sem := make(chan struct{}, 16)
		procs := []string{"1", "4", "16", "1", "16", "4"}
		for sd := 0; sd < seeds; sd++ {
			for v := range procs {
				wg.Add(1)
				sem <- struct{}{}
				go func(sd, v int) {
					defer wg.Done()
					defer func() { <-sem }()
					out := filepath.Join(s.dir, fmt.Sprintf("st-%s-%d-%d.json", p, sd, v))
					env := []string{"GOMAXPROCS=" + procs[v]}
					if spec.quick.race {
						env = append(env, "GORACE=halt_on_error=0 exitcode=66 history_size=7 atexit_sleep_ms=0 log_path="+filepath.Join(s.dir, "race", fmt.Sprintf("st%d-%d", sd, v)))
					}
					args := []string{"batch", "-prop", p, "-tier", "quick", "-seed", fmt.Sprint(1000 + sd), "-from", "0", "-to", fmt.Sprint(runs), "-out", out, "-replaydir", filepath.Join(s.dir, "replays")}
					args = append(args, spec.quick.extra...)
					if err := runWorker(bin, env, args, out+".log", 0x7fffffffffff); err != nil {
						mu.Lock()
						sums[key{sd, v}] = "ERROR " + err.Error()
						mu.Unlock()
						return
					}
					b, _ := os.ReadFile(out)
					r := &detsim.BatchResult{}
					json.Unmarshal(b, r)
					c, _ := json.Marshal([]interface{}{r.Runs, r.Steps, r.NonTrivial, r.Counters, r.Faults, r.Probes, len(r.Interleavings), len(r.Violations)})
					mu.Lock()
					sums[key{sd, v}] = fmt.Sprintf("%016x %s", r.LogHashXor, c)
					mu.Unlock()
					os.Remove(out)
				}(sd, v)
			}
		}
		wg.Wait()
		diverged := 0
		for sd := 0; sd < seeds; sd++ {
			for v := 1; v < len(procs); v++ {
				if sums[key{sd, v}] != sums[key{sd, 0}] {
					diverged++
					if diverged <= 3 {
						fmt.Printf("selftest: %s seed %d DIVERGED (GOMAXPROCS %s vs %s):\n  %.600s\n  %.600s\n", p, 1000+sd, procs[0], procs[v], sums[key{sd, 0}], sums[key{sd, v}])
					}
				}
			}
		}
		fmt.Printf("selftest determinism: %s: %d batch seeds x %d processes (GOMAXPROCS 1/4/16) x %d runs, %d divergences\n", p, seeds, len(procs), runs, diverged)
		bad += diverged
	}
	if bad > 0 {
		return 1
	}
	return 0
}
