// Package e1 is the LRU simulator: one valid.NewLRU(c) from the rewritten
// copy of the repository, 1 client (C09) or several (C10), a reference model
// written from the property text, and the oracles of DESIGN.md 3.1/C09/C10.
package e1

import (
	"strconv"
	"strings"
)

// entry of the reference LRU
type entry struct {
	k    int
	v    string
	born int // insertion time, only for the probe "recency was decisive"
}

// Model is the executable reference: capacity c, entries most recent first.
// It shares no code or constant with valid/cache.go.
type Model struct {
	c int
	e []entry
	// probes
	clock           int
	RecencyDecisive int // an eviction whose victim was not the oldest-inserted live entry (LRU != FIFO)
	Evictions       int
}

type removed struct {
	K int    `json:"k"`
	V string `json:"v"`
}

func NewModel(c int) *Model { return &Model{c: c} }

func (m *Model) find(k int) int {
	for i := range m.e {
		if m.e[i].k == k {
			return i
		}
	}
	return -1
}

func (m *Model) toFront(i int) {
	x := m.e[i]
	copy(m.e[1:i+1], m.e[:i])
	m.e[0] = x
}

// Store: replace+touch, or insert at the front and evict the least recently used on overflow.
func (m *Model) Store(k int, v string) []removed {
	if i := m.find(k); i >= 0 {
		m.e[i].v = v
		m.toFront(i)
		return nil
	}
	m.e = append(m.e, entry{})
	copy(m.e[1:], m.e[:len(m.e)-1])
	m.clock++
	m.e[0] = entry{k, v, m.clock}
	if len(m.e) > m.c {
		last := m.e[len(m.e)-1]
		m.e = m.e[:len(m.e)-1]
		m.Evictions++
		for _, x := range m.e {
			if x.born < last.born {
				m.RecencyDecisive++
				break
			}
		}
		return []removed{{last.k, last.v}}
	}
	return nil
}

func (m *Model) Load(k int) (string, bool) {
	i := m.find(k)
	if i < 0 {
		return "", false
	}
	v := m.e[i].v
	m.toFront(i)
	return v, true
}

func (m *Model) Delete(k int) []removed {
	i := m.find(k)
	if i < 0 {
		return nil
	}
	x := m.e[i]
	m.e = append(m.e[:i], m.e[i+1:]...)
	return []removed{{x.k, x.v}}
}

func (m *Model) Len() int { return len(m.e) }

// Encode gives a canonical text of the state (most recent first).
func (m *Model) Encode() string {
	var b strings.Builder
	for i, x := range m.e {
		if i > 0 {
			b.WriteByte('|')
		}
		b.WriteString(strconv.Itoa(x.k))
		b.WriteByte('=')
		b.WriteString(x.v)
	}
	return b.String()
}

func Decode(c int, s string) *Model {
	m := &Model{c: c}
	if s == "" {
		return m
	}
	for _, p := range strings.Split(s, "|") {
		i := strings.IndexByte(p, '=')
		k, _ := strconv.Atoi(p[:i])
		m.e = append(m.e, entry{k: k, v: p[i+1:]})
	}
	return m
}

func (m *Model) Clone() *Model {
	return &Model{c: m.c, e: append([]entry(nil), m.e...)}
}
