package e1

import (
	"fmt"
	"math/rand"
	"runtime"
	"sort"
	"strings"
	"sync"
	"time"

	"gitee.com/xuesongtao/protoc-go-valid/valid"
	"github.com/anishathalye/porcupine"

	"verifsim/detsim"
	"verifsim/simsync"
)

// Rec is one executed operation as observed by its client.
type Rec struct {
	Client  int       `json:"c"`
	Op      Op        `json:"op"`
	Invoke  uint64    `json:"inv"`
	Return  uint64    `json:"ret"`
	Acq     uint64    `json:"acq"` // seq of the lock grant inside the call (0: none)
	Val     string    `json:"val,omitempty"`
	Ok      bool      `json:"ok,omitempty"`
	N       int       `json:"n,omitempty"`
	Dump    string    `json:"dump,omitempty"` // a detached copy of what Dump returned, taken at once
	dumpRaw string    // the string Dump handed out, kept WITHOUT copying: it must still read the same when the run is over
	Removed []removed `json:"removed,omitempty"`
	Panic   string    `json:"panic,omitempty"`
	Done    bool      `json:"done"`
	CB      bool      `json:"-"` // the removal callback was registered when the operation ran
}

// cbRefuses is what a removal callback panics with when the plan makes it fail.
var cbRefuses = new(int)

// NilVal marks a Store of the nil value.
const NilVal = "<nil>"

func valStr(v interface{}) string {
	if v == nil {
		return NilVal
	}
	return valid.ToStr(v)
}

// Outcome of one run.
type Outcome struct {
	V             *detsim.Violation
	Res           *simsync.Result
	NonTrivial    bool
	Probes        detsim.Counter
	Hist          []Rec
	States        []uint64 // hashes of model states reached (seq shape)
	Inconclusive  bool
	PlanSchedHash uint64
}

// keyOf maps a key index to the key handed to the cache. With mixed keys the alphabet contains keys of
// different dynamic types whose printed forms collide ("1" and 1, a struct and its text), so that an
// implementation that indexes by a rendering of the key instead of the key itself confuses them.
func keyOf(k int) interface{} { return "k" + fmt.Sprint(k) }

type structKey struct {
	A int
	B string
}

// pointer keys: a pointer is a legal map key whatever it points to - also a struct with a slice in it, a map, a slice, a func
// (seeded C09y guarded Store / Load / Delete with a "hashable?" test that looked THROUGH pointers and ignored such keys).
// Made once, at start-up: the clients only read the tables.
type sliceHolder struct {
	names []string
	n     int
}

type mapHolder struct {
	id int
	m  map[string]int
}

type funcHolder struct {
	id int
	f  func()
}

var ptrKeysA, ptrKeysB [1024]interface{}

func init() {
	// every pointee carries a number, so that the simulator's content-based order of map keys tells the keys apart
	for i := range ptrKeysA {
		ptrKeysA[i] = &sliceHolder{names: []string{"a"}, n: i}
		switch i % 3 {
		case 0:
			ptrKeysB[i] = &mapHolder{id: i, m: map[string]int{"k": i}}
		case 1:
			pp := &sliceHolder{n: -i - 1}
			ptrKeysB[i] = &pp // a pointer to a pointer to a struct with a slice
		default:
			ptrKeysB[i] = &funcHolder{id: i, f: func() {}}
		}
	}
}

func mixedKey(k int) interface{} {
	switch k % 7 {
	case 0:
		return fmt.Sprint(k / 7) // "0", "1", ...
	case 1:
		return k / 7 // 0, 1, ... (same text as the strings above)
	case 2:
		return structKey{k / 7, "x"}
	case 3:
		return fmt.Sprint(structKey{k / 7, "x"}) // the text of the struct key
	case 5:
		return ptrKeysA[(k/7)%len(ptrKeysA)]
	case 6:
		return ptrKeysB[(k/7)%len(ptrKeysB)]
	}
	if k == 4 {
		return nil // the nil interface is a key like any other
	}
	return int64(k / 7) // same number as case 1, another type
}

// Typed values: the same text as a string, behind a String, an Error or a Format method.
type sVal struct{ s string }

func (v sVal) String() string { return v.s }

type eVal struct{ s string }

func (v *eVal) Error() string { return v.s }

type fVal struct{ s string }

func (v fVal) Format(f fmt.State, c rune) { f.Write([]byte(v.s)) }

func (p *Plan) val(s string) interface{} {
	if !p.TypedVals {
		return s
	}
	switch detsim.Hash64(s) % 4 {
	case 1:
		return sVal{s}
	case 2:
		return &eVal{s}
	case 3:
		return fVal{s}
	}
	return s
}

func (p *Plan) key(k int) interface{} {
	if p.MixedKeys {
		return mixedKey(k)
	}
	return keyOf(k)
}

// keyIndex builds the reverse of key() for the key alphabet of the plan.
func (p *Plan) keyIndex() map[interface{}]int {
	n := p.NKeys
	if n < 16 {
		n = 16
	}
	m := make(map[interface{}]int, n+5)
	for i := n + 4; i >= 0; i-- {
		m[p.key(i)] = i
	}
	return m
}

// exec performs one operation against the real cache and fills rec.
func exec(p *Plan, l *valid.LRUCache, rec *Rec) {
	switch rec.Op.K {
	case OpStore:
		if rec.Op.Val == NilVal {
			l.Store(p.key(rec.Op.Key), nil) // a nil value is a value like any other
		} else {
			l.Store(p.key(rec.Op.Key), p.val(rec.Op.Val))
		}
	case OpLoad:
		v, ok := l.Load(p.key(rec.Op.Key))
		rec.Ok = ok
		if ok {
			rec.Val = valStr(v)
		}
	case OpDelete:
		l.Delete(p.key(rec.Op.Key))
	case OpLen:
		rec.N = l.Len()
	case OpDump:
		rec.dumpRaw = l.Dump()
		rec.Dump = string([]byte(rec.dumpRaw))
	}
}

// runFill: one client stores NKeys distinct keys into a cache of capacity Cap (NKeys > Cap), asks for Len as it goes
// and loads every key at the end. The expected observations follow from the property text directly: Len = min(stored, Cap),
// the i-th overflowing store evicts the i-th key stored, with its value, exactly once; at the end exactly the last Cap keys hit.
func runFill(p *Plan, ch simsync.Chooser) *Outcome {
	out := &Outcome{Probes: detsim.Counter{}}
	cache := valid.NewLRU(p.Cap)
	type rm struct {
		k interface{}
		v interface{}
	}
	var got []rm
	cache.SetDelCallBackFn(func(k, v interface{}) { got = append(got, rm{k, v}) })
	var v *detsim.Violation
	bad := func(sub, format string, a ...interface{}) {
		if v == nil {
			v = &detsim.Violation{Class: "model-mismatch", Sub: sub, Detail: fmt.Sprintf("fill history on capacity %d (%d distinct keys): ", p.Cap, p.NKeys) + fmt.Sprintf(format, a...)}
		}
	}
	sim := simsync.New(ch, p.Cfg)
	sim.Go("client0", func() {
		for i := 0; i < p.NKeys && v == nil; i++ {
			before := len(got)
			cache.Store(i, "f"+fmt.Sprint(i))
			switch {
			case i < p.Cap && len(got) != before:
				bad("callback-extra", "store #%d of a new key below capacity fired the removal callback with (%v,%v)", i, got[before].k, got[before].v)
			case i >= p.Cap && len(got) != before+1:
				bad("callback-missing", "store #%d overflowed and the removal callback fired %d times", i, len(got)-before)
			case i >= p.Cap && (got[before].k != i-p.Cap || got[before].v != "f"+fmt.Sprint(i-p.Cap)):
				bad("wrong-victim", "store #%d overflowed: callback got (%v,%v), the least recently used entry is (%d,f%d)", i, got[before].k, got[before].v, i-p.Cap, i-p.Cap)
			}
			if i%97 == 0 || i == p.NKeys-1 || i == p.Cap || i == p.Cap-1 {
				want := i + 1
				if want > p.Cap {
					want = p.Cap
				}
				if n := cache.Len(); n != want {
					bad(lenSub(n, p.Cap), "after %d stores of distinct keys Len()=%d, want %d", i+1, n, want)
				}
			}
		}
		for i := 0; i < p.NKeys && v == nil; i++ {
			x, ok := cache.Load(i)
			switch live := i >= p.NKeys-p.Cap; {
			case live && !ok:
				bad("lost-entry", "Load(%d) missed: the key is among the %d most recently stored", i, p.Cap)
			case !live && ok:
				bad("ghost-entry", "Load(%d) hit %v: the key was evicted", i, x)
			case live && x != "f"+fmt.Sprint(i):
				bad("stale-value", "Load(%d)=%v", i, x)
			}
		}
	})
	res := sim.Run()
	out.Res = res
	out.PlanSchedHash = detsim.HashAdd(res.LogHash, uint64(p.Cap))
	switch {
	case len(res.Panics) > 0:
		out.V = &detsim.Violation{Class: "panic", Sub: panicSub(res.Panics[0]), Detail: strings.Join(res.Panics, " | ")}
	case res.StepCapHit:
		out.Inconclusive = true
	default:
		out.V = v
	}
	out.Probes.Add("fill_histories", 1)
	out.Probes.Add("evictions", int64(len(got)))
	out.NonTrivial = len(got) > 0
	return out
}

// Run executes a plan under the given chooser and judges it.
func Run(p *Plan, ch simsync.Chooser) (out *Outcome) {
	rand.Seed(1) // the global generator of math/rand restarts with every run: a library that draws from it replays
	defer func() {
		// a panic of the cache in a call the harness makes itself (the prefill before the clients start, the questions after
		// they have ended) is a panic of the cache like any other
		if r := recover(); r != nil {
			if simsync.IsAbort(r) {
				panic(r)
			}
			msg := fmt.Sprint(r)
			out = &Outcome{Probes: detsim.Counter{}, V: &detsim.Violation{Class: "panic", Sub: panicSub("harness: " + msg), Detail: "in a call made outside the simulated clients (prefill or final questions): " + msg}}
		}
	}()
	if p.Shape == "fill" {
		return runFill(p, ch)
	}
	out = &Outcome{Probes: detsim.Counter{}}
	cache := valid.NewLRU(p.Cap)
	nc := len(p.Clients)
	recs := make([][]Rec, nc)
	cur := make([]*Rec, nc)
	rev := p.keyIndex()
	keyNum := func(k interface{}) (n int) {
		defer func() {
			if recover() != nil {
				n = -1 // an unhashable value handed to the callback
			}
		}()
		if i, ok := rev[k]; ok {
			return i
		}
		return -1
	}
	cbCount := make([]int, nc)
	var cbSelf func(k, v interface{})
	cbRecovered := make([]int, nc) // per client: written by that client's task only
	cbFn := func(k, v interface{}) {
		id := simsync.TaskID()
		if id < 0 || id >= nc || cur[id] == nil {
			return
		}
		cur[id].Removed = append(cur[id].Removed, removed{keyNum(k), valStr(v)})
		if p.CBFailEvery > 0 {
			cbCount[id]++
			if cbCount[id]%p.CBFailEvery == 0 {
				// user code that misbehaves: the entry is gone all the same, and the cache must stay usable
				switch p.CBFail {
				case "panic":
					panic(cbRefuses)
				case "goexit":
					runtime.Goexit()
				case "reregister":
					cache.SetDelCallBackFn(cbSelf)
				}
			}
		}
	}
	cbSelf = cbFn
	cbOn := p.Callback && p.CallbackAt == 0
	if cbOn {
		cache.SetDelCallBackFn(cbFn)
	}
	if p.Shape == "huge" {
		// prefill, sequentially, before the clients start
		for k := 0; k < p.Cap; k++ {
			cache.Store(p.key(k), p.val("p"+fmt.Sprint(k)))
		}
	}
	if p.Shape == "small" {
		for k := 0; k < p.Prefill; k++ {
			cache.Store(p.key(k), p.val("p"+fmt.Sprint(k)))
		}
	}
	var shadow *valid.LRUCache
	if p.Bystander > 0 && p.Shape == "seq" {
		shadow = valid.NewLRU(2)
		shadow.SetDelCallBackFn(func(k, v interface{}) {})
	}
	sim := simsync.New(ch, p.Cfg)
	// seq shape: the client owns the model and checks each step itself
	var seqV *detsim.Violation
	var model *Model
	if p.Shape == "seq" {
		model = NewModel(p.Cap)
	}
	for c := 0; c < nc; c++ {
		c := c
		recs[c] = make([]Rec, len(p.Clients[c]))
		sim.Go(fmt.Sprintf("client%d", c), func() {
			for i, op := range p.Clients[c] {
				if p.Callback && !cbOn && i == p.CallbackAt && nc == 1 {
					// the callback is registered only now, with entries already in the cache (single client only:
					// SetDelCallBackFn is not among the operations C10 allows concurrently)
					cache.SetDelCallBackFn(cbFn)
					cbOn = true
				}
				if shadow != nil {
					// single client: a second cache instance is used in between (instances must not share state)
					switch i % 3 {
					case 0:
						shadow.Store(i%5, i)
					case 1:
						shadow.Load((i + 1) % 5)
					case 2:
						shadow.Delete((i + 2) % 5)
					}
				}
				rec := &recs[c][i]
				rec.Client, rec.Op = c, op
				rec.CB = cbOn
				cur[c] = rec
				before := simsync.LastAcquire()
				rec.Invoke = simsync.Stamp()
				func() {
					defer func() {
						if r := recover(); r != nil {
							if r == interface{}(cbRefuses) {
								cbRecovered[c]++
								return
							}
							rec.Panic = fmt.Sprint(r)
							panic(r)
						}
					}()
					exec(p, cache, rec)
				}()
				rec.Return = simsync.Stamp()
				if a := simsync.LastAcquire(); a != before {
					rec.Acq = a
				}
				rec.Done = true
				cur[c] = nil
				if model != nil && seqV == nil {
					seqV = stepCheck(model, p, rec, i, out)
					if seqV != nil {
						return
					}
				}
			}
		})
	}
	if p.Bystander > 0 && p.Shape != "seq" {
		// an extra client works on a cache instance of its own at the same time: instances must not share state
		other := valid.NewLRU(1 + p.Cap%3)
		other.SetDelCallBackFn(func(k, v interface{}) {})
		sim.Go("bystander", func() {
			for i := 0; i < p.Bystander; i++ {
				switch i % 4 {
				case 0, 1:
					other.Store("b"+fmt.Sprint(i%7), i)
				case 2:
					other.Load("b" + fmt.Sprint((i+3)%7))
				case 3:
					other.Delete("b" + fmt.Sprint((i+1)%7))
				}
			}
		})
	}
	res := sim.Run()
	out.Res = res
	for _, n := range cbRecovered {
		out.Probes.Add("callback_panicked_and_client_recovered", int64(n))
	}
	for c := range recs {
		for i := range recs[c] {
			if recs[c][i].Invoke != 0 {
				out.Hist = append(out.Hist, recs[c][i])
			}
		}
	}
	sort.SliceStable(out.Hist, func(i, j int) bool { return out.Hist[i].Invoke < out.Hist[j].Invoke })
	out.PlanSchedHash = detsim.HashAdd(res.LogHash, uint64(p.Cap)<<32|uint64(p.NOps()))
	for _, h := range out.Hist {
		out.PlanSchedHash = detsim.HashAdd(out.PlanSchedHash, detsim.Hash64(h.Op.String()))
	}

	// a string the cache handed out belongs to the caller: it must read now as it read when Dump returned
	var dumpChanged *Rec
	for c := range recs {
		for i := range recs[c] {
			if r := &recs[c][i]; r.Op.K == OpDump && r.Done && r.dumpRaw != r.Dump && dumpChanged == nil {
				dumpChanged = r
			}
		}
	}
	// verdicts common to all shapes
	switch {
	case len(res.Panics) > 0:
		out.V = &detsim.Violation{Class: "panic", Sub: panicSub(res.Panics[0]), Detail: strings.Join(res.Panics, " | ")}
	case res.Deadlock:
		out.V = &detsim.Violation{Class: "deadlock", Detail: res.DeadlockMsg}
	case res.StepCapHit:
		out.Inconclusive = true
		return out
	case seqV != nil:
		out.V = seqV
	case dumpChanged != nil && p.Prop == "C10":
		out.V = &detsim.Violation{Class: "handed-out-string-changed", Sub: "Dump", Detail: fmt.Sprintf("client %d: Dump() returned %q; the same string, read again after the run, says %q", dumpChanged.Client, clip(dumpChanged.Dump), clip(dumpChanged.dumpRaw))}
	}
	if out.V != nil {
		return out
	}
	switch p.Shape {
	case "seq":
		out.Probes.Add("evictions", int64(model.Evictions))
		out.Probes.Add("recency_decisive", int64(model.RecencyDecisive))
		// an operation the client did not come back from (its callback ended the goroutine): its effect is complete by then
		for i := range recs[0] {
			if r := &recs[0][i]; r.Invoke != 0 && !r.Done {
				switch r.Op.K {
				case OpStore:
					model.Store(r.Op.Key, r.Op.Val)
				case OpDelete:
					model.Delete(r.Op.Key)
				}
				out.Probes.Add("client_ended_inside_an_operation", 1)
			}
		}
		// quiescence
		if n := cache.Len(); n != model.Len() {
			out.V = &detsim.Violation{Class: "model-mismatch", Sub: lenSub(n, p.Cap), Detail: fmt.Sprintf("at the end Len()=%d, model has %d entries", n, model.Len())}
		}
		if out.V == nil {
			// ... and every key answers as the model says (asked from outside the simulation, after the last client has ended)
			for k := 0; k < p.NKeys && out.V == nil; k++ {
				v, ok := cache.Load(p.key(k))
				mv, mok := model.Load(k)
				switch {
				case ok != mok:
					out.V = &detsim.Violation{Class: "model-mismatch", Sub: map[bool]string{true: "ghost-entry", false: "lost-entry"}[ok], Detail: fmt.Sprintf("at the end Load(k%d) hit=%v, the model says %v", k, ok, mok)}
				case ok && valStr(v) != mv:
					out.V = &detsim.Violation{Class: "model-mismatch", Sub: "stale-value", Detail: fmt.Sprintf("at the end Load(k%d)=%q, the model holds %q", k, valStr(v), mv)}
				}
			}
		}
	case "small":
		judgeSmall(p, out)
	case "large":
		judgeLarge(p, cache, out)
	case "huge":
		judgeHuge(p, cache, out)
	}
	return out
}

// judgeHuge: the cache was full from the start and the clients never insert or delete a key, so every sequential
// state holds each of the Cap keys exactly once. Every Dump must therefore list exactly Cap values, one per key, each
// of them a value that was stored under that key; every Len must be Cap; every Load must hit such a value.
func judgeHuge(p *Plan, cache *valid.LRUCache, out *Outcome) {
	h := out.Hist
	bad := func(sub, format string, a ...interface{}) {
		if out.V == nil {
			out.V = &detsim.Violation{Class: "invariant", Sub: sub, Detail: fmt.Sprintf("full cache of capacity %d, %d clients, updates/loads/dumps only: ", p.Cap, len(p.Clients)) + fmt.Sprintf(format, a...)}
		}
	}
	keyOfVal := make(map[string]int, p.Cap+len(h))
	for k := 0; k < p.Cap; k++ {
		keyOfVal["p"+fmt.Sprint(k)] = k
	}
	for i := range h {
		if h[i].Op.K == OpStore {
			keyOfVal[h[i].Op.Val] = h[i].Op.Key
		}
	}
	overlap := false
	for i := range h {
		r := &h[i]
		for j := range h {
			if h[j].Client != r.Client && h[j].Invoke < r.Return && r.Invoke < h[j].Return {
				overlap = true
			}
		}
		switch r.Op.K {
		case OpLen:
			if r.N != p.Cap {
				bad(lenSub(r.N, p.Cap), "Len()=%d", r.N)
			}
		case OpLoad:
			if k, ok := keyOfVal[r.Val]; !r.Ok || !ok || k != r.Op.Key {
				bad("load", "Load(k%d) = (%q,%v): the key is live in every sequential state and was never stored with that value", r.Op.Key, r.Val, r.Ok)
			}
		case OpDump:
			lines := strings.Split(r.Dump, "\n")
			seen := make(map[int]bool, p.Cap)
			for _, l := range lines {
				k, ok := keyOfVal[l]
				switch {
				case !ok:
					bad("dump", "Dump lists %q, which was never stored", l)
				case seen[k]:
					bad("dump", "Dump lists key k%d twice (%d lines): no sequential state does", k, len(lines))
				}
				seen[k] = true
			}
			if len(lines) != p.Cap {
				bad("dump", "Dump lists %d values, every sequential state holds %d", len(lines), p.Cap)
			}
			out.Probes.Add("huge_dumps_checked", 1)
		}
		if len(r.Removed) > 0 {
			bad("callback-extra", "the removal callback fired (%v) although no key was inserted or deleted", r.Removed)
		}
	}
	if n := cache.Len(); n != p.Cap {
		bad(lenSub(n, p.Cap), "Len()=%d at quiescence", n)
	}
	for k := 0; k < p.Cap; k++ {
		v, ok := cache.Load(p.key(k))
		if kk, known := keyOfVal[valStr(v)]; !ok || !known || kk != k {
			bad("load", "at quiescence Load(k%d) = (%v,%v)", k, v, ok)
			break
		}
	}
	out.NonTrivial = overlap
}

func panicSub(msg string) string {
	// stable part of a panic message: drop addresses and numbers
	i := strings.Index(msg, ": ")
	if i >= 0 {
		msg = msg[i+2:]
	}
	if j := strings.IndexByte(msg, '\n'); j >= 0 {
		msg = msg[:j]
	}
	var b strings.Builder
	for _, r := range msg {
		if r >= '0' && r <= '9' {
			continue
		}
		b.WriteRune(r)
	}
	s := b.String()
	if len(s) > 60 {
		s = s[:60]
	}
	return s
}

func lenSub(n, c int) string {
	switch {
	case n == -1:
		return "len-sentinel"
	case n > c:
		return "over-capacity"
	}
	return "len-mismatch"
}

func sameRemoved(a, b []removed) bool {
	if len(a) != len(b) {
		return false
	}
	for i := range a {
		if a[i] != b[i] {
			return false
		}
	}
	return true
}

// stepCheck refines one operation of the single client against the model.
func stepCheck(m *Model, p *Plan, rec *Rec, idx int, out *Outcome) *detsim.Violation {
	mis := func(sub, format string, a ...interface{}) *detsim.Violation {
		return &detsim.Violation{Class: "model-mismatch", Sub: sub,
			Detail: fmt.Sprintf("op #%d %s on capacity %d: ", idx, rec.Op, p.Cap) + fmt.Sprintf(format, a...)}
	}
	var want []removed
	switch rec.Op.K {
	case OpStore:
		if i := m.find(rec.Op.Key); i >= 0 {
			out.Probes.Add("restore_live_key", 1)
		}
		if p.Cap == 0 {
			out.Probes.Add("cap0_store", 1)
		}
		want = m.Store(rec.Op.Key, rec.Op.Val)
	case OpLoad:
		v, ok := m.Load(rec.Op.Key)
		switch {
		case ok && !rec.Ok:
			return mis("lost-entry", "Load missed, the model holds %q", v)
		case !ok && rec.Ok:
			return mis("ghost-entry", "Load hit %q, the model has no such entry", rec.Val)
		case ok && v != rec.Val:
			return mis("stale-value", "Load returned %q, most recently stored value is %q", rec.Val, v)
		}
		if ok {
			out.Probes.Add("load_hit", 1)
		}
	case OpDelete:
		if m.find(rec.Op.Key) < 0 {
			out.Probes.Add("delete_absent", 1)
		}
		want = m.Delete(rec.Op.Key)
	case OpLen:
		if rec.N != m.Len() {
			return mis(lenSub(rec.N, p.Cap), "Len()=%d, the model has %d live entries", rec.N, m.Len())
		}
	case OpDump:
		// C09 does not speak about Dump; it must only not disturb anything
	}
	if rec.CB && !sameRemoved(want, rec.Removed) {
		sub := "callback-wrong"
		switch {
		case len(rec.Removed) < len(want):
			sub = "callback-missing"
		case len(rec.Removed) > len(want):
			sub = "callback-extra"
		case want[0].K == rec.Removed[0].K:
			sub = "callback-stale-value"
		default:
			sub = "wrong-victim"
		}
		return mis(sub, "removal callback got %v, model expects %v", rec.Removed, want)
	}
	if m.Len() > p.Cap {
		panic("model broken")
	}
	out.States = append(out.States, detsim.Hash64(fmt.Sprint(p.Cap, ":", m.Encode())))
	return nil
}

// ---------------------------------------------------------------- Dump reference (differential)

var (
	dumpMu   sync.Mutex
	dumpMemo = map[string]string{}
)

// dumpOf returns what Dump() shows for a cache brought sequentially to the model state.
func dumpOf(c int, state string) string {
	key := fmt.Sprint(c, ":", state)
	dumpMu.Lock()
	defer dumpMu.Unlock()
	if d, ok := dumpMemo[key]; ok {
		return d
	}
	if simsync.InSim() {
		panic("dumpOf inside a simulation")
	}
	m := Decode(c, state)
	l := valid.NewLRU(c)
	for i := len(m.e) - 1; i >= 0; i-- {
		if m.e[i].v == NilVal {
			l.Store(keyOf(m.e[i].k), nil)
		} else {
			l.Store(keyOf(m.e[i].k), m.e[i].v)
		}
	}
	d := l.Dump()
	if len(dumpMemo) > 200000 {
		dumpMemo = map[string]string{}
	}
	dumpMemo[key] = d
	return d
}

// ---------------------------------------------------------------- small shape: linearizability

type linIn struct {
	op Op
	cb bool
	c  int
}
type linOut struct {
	val     string
	ok      bool
	n       int
	dump    string
	removed []removed
	pending bool // the call never returned (not used: histories with panics are violations already)
}

func stepModel(c int, cb bool, state string, op Op, o *Rec) (bool, string) {
	m := Decode(c, state)
	var want []removed
	switch op.K {
	case OpStore:
		want = m.Store(op.Key, op.Val)
	case OpLoad:
		v, ok := m.Load(op.Key)
		if ok != o.Ok || (ok && v != o.Val) {
			return false, state
		}
	case OpDelete:
		want = m.Delete(op.Key)
	case OpLen:
		if o.N != m.Len() {
			return false, state
		}
	case OpDump:
		if o.Dump != dumpOf(c, state) {
			return false, state
		}
	}
	if cb && !sameRemoved(want, o.Removed) {
		return false, state
	}
	return true, m.Encode()
}

// initialState: the model state the clients of a small history start from (empty, or the prefilled keys in the order stored).
func initialState(p *Plan) string {
	if p.Prefill <= 0 {
		return ""
	}
	m := NewModel(p.Cap)
	for k := 0; k < p.Prefill; k++ {
		m.Store(k, "p"+fmt.Sprint(k))
	}
	return m.Encode()
}

func judgeSmall(p *Plan, out *Outcome) {
	h := out.Hist
	// probes and non-triviality
	overlap := false
	dumpOverlap := false
	for i := range h {
		for j := range h {
			if i == j || h[i].Client == h[j].Client {
				continue
			}
			if h[i].Invoke < h[j].Return && h[j].Invoke < h[i].Return {
				overlap = true
				if h[i].Op.K == OpDump && (h[j].Op.K == OpStore || h[j].Op.K == OpDelete || h[j].Op.K == OpLoad) {
					dumpOverlap = true
				}
			}
		}
	}
	removals := 0
	for i := range h {
		removals += len(h[i].Removed)
	}
	if overlap {
		out.Probes.Add("ops_overlapped", 1)
	}
	if dumpOverlap {
		out.Probes.Add("dump_overlaps_mutation", 1)
	}
	out.NonTrivial = overlap && (removals > 0 || !p.Callback)

	// fast path: the order of lock grants (invoke stamp for calls that took no lock)
	order := make([]int, len(h))
	for i := range order {
		order[i] = i
	}
	pt := func(r *Rec) uint64 {
		if r.Acq != 0 {
			return r.Acq
		}
		return r.Invoke
	}
	sort.SliceStable(order, func(a, b int) bool { return pt(&h[order[a]]) < pt(&h[order[b]]) })
	state := initialState(p)
	okAll := true
	for _, i := range order {
		ok, ns := stepModel(p.Cap, p.Callback, state, h[i].Op, &h[i])
		if !ok {
			okAll = false
			break
		}
		state = ns
	}
	if okAll {
		out.Probes.Add("lin_fastpath", 1)
		return
	}
	out.Probes.Add("lin_porcupine", 1)
	model := porcupine.Model{
		Init: func() interface{} { return initialState(p) },
		Step: func(st, in, o interface{}) (bool, interface{}) {
			r := o.(*Rec)
			ok, ns := stepModel(p.Cap, p.Callback, st.(string), r.Op, r)
			return ok, ns
		},
		Equal: func(a, b interface{}) bool { return a.(string) == b.(string) },
	}
	ops := make([]porcupine.Operation, 0, len(h))
	for i := range h {
		ops = append(ops, porcupine.Operation{ClientId: h[i].Client, Input: i, Call: int64(h[i].Invoke), Output: &h[i], Return: int64(h[i].Return)})
	}
	switch porcupine.CheckOperationsTimeout(model, ops, 30*time.Second) {
	case porcupine.Illegal:
		out.V = &detsim.Violation{Class: "linearizability", Sub: linSub(p, h), Detail: describeHist(p, h)}
	case porcupine.Unknown:
		out.Inconclusive = true
	}
}

// linSub names what kind of observation has no sequential explanation: it
// removes one operation kind at a time and asks whether the rest linearizes.
func linSub(p *Plan, h []Rec) string {
	kinds := []string{OpDump, OpLen, OpLoad}
	for _, k := range kinds {
		has := false
		var ops []porcupine.Operation
		hh := make([]Rec, len(h))
		copy(hh, h)
		for i := range hh {
			if hh[i].Op.K == k {
				has = true
				continue
			}
			ops = append(ops, porcupine.Operation{ClientId: hh[i].Client, Input: i, Call: int64(hh[i].Invoke), Output: &hh[i], Return: int64(hh[i].Return)})
		}
		if !has {
			continue
		}
		model := porcupine.Model{
			Init: func() interface{} { return initialState(p) },
			Step: func(st, in, o interface{}) (bool, interface{}) {
				r := o.(*Rec)
				ok, ns := stepModel(p.Cap, p.Callback, st.(string), r.Op, r)
				return ok, ns
			},
			Equal: func(a, b interface{}) bool { return a.(string) == b.(string) },
		}
		if porcupine.CheckOperationsTimeout(model, ops, 5*time.Second) == porcupine.Ok {
			return k
		}
	}
	return "mixed"
}

func describeHist(p *Plan, h []Rec) string {
	var b strings.Builder
	fmt.Fprintf(&b, "capacity %d; no sequential order explains: ", p.Cap)
	for _, r := range h {
		fmt.Fprintf(&b, "[c%d %d..%d %s", r.Client, r.Invoke, r.Return, r.Op)
		switch r.Op.K {
		case OpLoad:
			fmt.Fprintf(&b, "=%q,%v", r.Val, r.Ok)
		case OpLen:
			fmt.Fprintf(&b, "=%d", r.N)
		case OpDump:
			fmt.Fprintf(&b, "=%q", r.Dump)
		}
		if len(r.Removed) > 0 {
			fmt.Fprintf(&b, " cb%v", r.Removed)
		}
		b.WriteString("] ")
	}
	return b.String()
}

// ---------------------------------------------------------------- large shape: invariants

func judgeLarge(p *Plan, cache *valid.LRUCache, out *Outcome) {
	h := out.Hist
	bad := func(sub, format string, a ...interface{}) {
		if out.V == nil {
			out.V = &detsim.Violation{Class: "invariant", Sub: sub, Detail: fmt.Sprintf("capacity %d, %d clients: ", p.Cap, len(p.Clients)) + fmt.Sprintf(format, a...)}
		}
	}
	storedKey := map[string]int{} // value -> key
	storesPerKey := map[int]int{}
	removedSeen := map[string]bool{}
	nRemoved := 0
	for i := range h {
		r := &h[i]
		if r.Op.K == OpStore {
			storedKey[r.Op.Val] = r.Op.Key
			storesPerKey[r.Op.Key]++
		}
	}
	for i := range h {
		r := &h[i]
		if r.Op.K == OpLen && (r.N < 0 || r.N > p.Cap) {
			bad(lenSub(r.N, p.Cap), "Len()=%d during the run", r.N)
		}
		if r.Op.K == OpLoad && r.Ok {
			if k, ok := storedKey[r.Val]; !ok || k != r.Op.Key {
				bad("foreign-value", "Load(k%d) returned %q which was never stored under that key", r.Op.Key, r.Val)
			}
		}
		for _, x := range r.Removed {
			nRemoved++
			k, ok := storedKey[x.V]
			if !ok || k != x.K {
				bad("callback-wrong", "callback (k%d,%q) matches no Store", x.K, x.V)
			}
			if removedSeen[x.V] {
				bad("callback-duplicate", "callback fired twice for (k%d,%q)", x.K, x.V)
			}
			removedSeen[x.V] = true
		}
	}
	if nRemoved > 0 {
		out.Probes.Add("large_removals", int64(nRemoved))
	}
	// quiescence (direct mode, after all clients have finished)
	n := cache.Len()
	if n < 0 || n > p.Cap {
		bad(lenSub(n, p.Cap), "Len()=%d at quiescence", n)
	}
	live := 0
	for k := 0; k < p.NKeys; k++ {
		v, ok := cache.Load(p.key(k))
		if !ok {
			if p.Callback && storesPerKey[k] == 1 {
				// stored exactly once and gone: it must have been reported removed exactly once
				for val, kk := range storedKey {
					if kk == k && !removedSeen[val] {
						bad("callback-missing", "k%d was stored once (%q), is gone at quiescence, and no callback reported it", k, val)
					}
				}
			}
			continue
		}
		live++
		vs := valStr(v)
		if kk, ok := storedKey[vs]; !ok || kk != k {
			bad("foreign-value", "at quiescence Load(k%d)=%q was never stored under that key", k, vs)
		}
		if p.Callback && removedSeen[vs] {
			bad("removed-still-live", "at quiescence Load(k%d)=%q although the callback reported it removed", k, vs)
		}
	}
	if n >= 0 && live != n {
		bad("len-mismatch", "at quiescence Len()=%d but %d keys hit", n, live)
	}
	out.NonTrivial = out.Res.LockWaits > 0 && (nRemoved > 0 || !p.Callback)
}

func clip(s string) string {
	if len(s) > 300 {
		return s[:300] + "..."
	}
	return s
}
