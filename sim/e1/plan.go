package e1

import (
	"fmt"

	"verifsim/detsim"
	"verifsim/simsync"
)

// Op kinds
const (
	OpStore  = "store"
	OpLoad   = "load"
	OpDelete = "delete"
	OpLen    = "len"
	OpDump   = "dump"
)

type Op struct {
	K   string `json:"op"`
	Key int    `json:"key,omitempty"`
	Val string `json:"val,omitempty"`
}

func (o Op) String() string {
	switch o.K {
	case OpStore:
		return fmt.Sprintf("Store(k%d,%s)", o.Key, o.Val)
	case OpLoad, OpDelete:
		return fmt.Sprintf("%s(k%d)", o.K, o.Key)
	}
	return o.K + "()"
}

// Plan is everything that is decided before the first scheduling step.
type Plan struct {
	Prop        string         `json:"prop"`
	Shape       string         `json:"shape"` // seq | small | large
	Cap         int            `json:"cap"`
	NKeys       int            `json:"nkeys"`
	Callback    bool           `json:"callback"`
	Sys         bool           `json:"systematic,omitempty"`           // a case of the systematic corpus (every short sequence)
	MixedKeys   bool           `json:"mixed_keys,omitempty"`           // keys of different dynamic types whose printed forms collide
	CallbackAt  int            `json:"callback_at,omitempty"`          // single client: the callback is registered just before this operation index (0: before the first)
	CBFailEvery int            `json:"callback_fails_every,omitempty"` // > 0: every n-th invocation of the removal callback (per client) misbehaves after taking its note, see CBFail
	CBFail      string         `json:"callback_fail,omitempty"`        // "panic": it panics, the client recovers and goes on using the cache; "goexit": it ends its goroutine (what t.FailNow does), the others go on; "reregister": it registers itself again through SetDelCallBackFn (a one-shot or self-replacing callback)
	TypedVals   bool           `json:"typed_values,omitempty"`         // stored values are strings, Stringers, errors and Formatters with the same text (C10n formatted some of them outside the lock)
	Bystander   int            `json:"bystander_ops,omitempty"`        // > 0: a second, independent cache instance is used at the same time (that many operations)
	Prefill     int            `json:"prefill,omitempty"`              // small shape: keys k0..k(n-1) are stored sequentially (values p0..) before the clients start
	Clients     [][]Op         `json:"clients"`
	Cfg         simsync.Config `json:"cfg"`
}

func (p *Plan) NOps() int {
	n := 0
	for _, c := range p.Clients {
		n += len(c)
	}
	return n
}

type mix struct{ store, load, del, ln, dump int }

func genOps(r *detsim.Rand, client, n, nkeys int, m mix, loadBeforeStore bool, sameVals ...bool) []Op {
	ops := make([]Op, 0, n)
	vn := 0
	last := map[int]string{}
	for len(ops) < n {
		k := r.Intn(nkeys)
		switch r.Weighted([]int{m.store, m.load, m.del, m.ln, m.dump}) {
		case 0:
			if loadBeforeStore && r.Chance(1, 2) && len(ops)+1 < n {
				ops = append(ops, Op{K: OpLoad, Key: r.Intn(nkeys)})
			}
			vn++
			val := fmt.Sprintf("v%d.%d", client, vn)
			if len(sameVals) > 0 && sameVals[0] && last[k] != "" && r.Chance(1, 6) {
				val = last[k] // the value this client stored under the key last time: an "unchanged" re-store must still refresh the entry (seeded C09r)
			}
			last[k] = val
			ops = append(ops, Op{K: OpStore, Key: k, Val: val})
		case 1:
			ops = append(ops, Op{K: OpLoad, Key: k})
		case 2:
			ops = append(ops, Op{K: OpDelete, Key: k})
		case 3:
			ops = append(ops, Op{K: OpLen})
		case 4:
			ops = append(ops, Op{K: OpDump})
		}
	}
	return ops
}

// genPhased draws a single-client history made of phases, each a long run of ONE kind of operation: fill with new
// keys, load many (ascending, descending, random, one hot key), re-store, delete, overflow with new keys. A uniform mix
// practically never holds 129 Loads in a row; a warm cache in production sees thousands (seeded C09n: hits recorded in a
// 128-slot buffer that silently drops when full).
func genPhased(r *detsim.Rand, cap int) (ops []Op, nkeys int) {
	vn, next := 0, 0 // next: the smallest key never stored
	store := func(k int) {
		vn++
		ops = append(ops, Op{K: OpStore, Key: k, Val: fmt.Sprintf("v0.%d", vn)})
	}
	fresh := func(n int) {
		for i := 0; i < n; i++ {
			store(next)
			next++
		}
	}
	loads := func(n int) {
		if next == 0 {
			return
		}
		lo := 0
		if next > cap+3 {
			lo = next - cap - 3 // mostly live keys, a few evicted ones
		}
		span := next - lo
		switch r.Intn(4) {
		case 0:
			for i := 0; i < n; i++ {
				ops = append(ops, Op{K: OpLoad, Key: lo + i%span})
			}
		case 1:
			for i := 0; i < n; i++ {
				ops = append(ops, Op{K: OpLoad, Key: next - 1 - i%span})
			}
		case 2:
			for i := 0; i < n; i++ {
				ops = append(ops, Op{K: OpLoad, Key: lo + r.Intn(span)})
			}
		case 3:
			hot := lo + r.Intn(span)
			for i := 0; i < n; i++ {
				ops = append(ops, Op{K: OpLoad, Key: hot})
			}
		}
	}
	runLen := func() int {
		switch r.Weighted([]int{3, 3, 2}) {
		case 0:
			return 1 + r.Intn(8)
		case 1:
			return 20 + r.Intn(120)
		}
		return 129 + r.Intn(300)
	}
	if r.Chance(1, 2) {
		// the template: fill, a long run of hits, overflow, look at everything
		fresh(cap + r.Intn(4))
		n := cap/2 + r.Intn(2*cap+8)
		if r.Chance(1, 2) && n < 140 {
			n = 129 + r.Intn(200)
		}
		loads(n)
		fresh(1 + r.Intn(cap+1))
		for k := 0; k < next; k++ {
			ops = append(ops, Op{K: OpLoad, Key: k})
		}
		return ops, next + 1
	}
	fresh(1 + r.Intn(cap+3))
	for ph := 2 + r.Intn(6); ph > 0 && len(ops) < 2500; ph-- {
		switch r.Weighted([]int{4, 3, 2, 1, 1, 1}) {
		case 0:
			loads(runLen())
		case 1:
			fresh(1 + r.Intn(cap+2))
		case 2: // re-store live keys
			for n := runLen(); n > 0 && next > 0; n-- {
				store(next - 1 - r.Intn(min(next, cap+1)))
			}
		case 3:
			for n := 1 + r.Intn(cap+1); n > 0 && next > 0; n-- {
				ops = append(ops, Op{K: OpDelete, Key: next - 1 - r.Intn(min(next, cap+2))})
			}
		case 4:
			ops = append(ops, Op{K: OpLen})
		case 5:
			ops = append(ops, Op{K: OpDump})
		}
	}
	fresh(1 + r.Intn(cap+1))
	return ops, next + 1
}

func min(a, b int) int {
	if a < b {
		return a
	}
	return b
}

func genMix(r *detsim.Rand, withDump bool) (mix, bool) {
	m := mix{store: 4, load: 3, del: 1, ln: 1}
	if withDump {
		m.dump = 1
	}
	lbs := false
	switch r.Intn(6) { // swarm
	case 0:
		m.del = 0
	case 1:
		m.store, m.load = 8, 1 // re-store heavy
	case 2:
		lbs = true // a Load just before overflowing Stores
	case 3:
		m.del, m.store = 4, 4
	case 4:
		m.load = 6
	}
	return m, lbs
}

// GenC09 draws a single-client history.
func GenC09(r *detsim.Rand, tier string) *Plan {
	p := &Plan{Prop: "C09", Shape: "seq", Callback: !r.Chance(1, 10)}
	p.Cfg = simsync.Config{Policy: simsync.PolicyUniform, StallTask: -1, Pool: simsync.PoolMode(r.Intn(3))}
	switch r.Weighted([]int{70, 20, 10, 1}) {
	case 3:
		// capacities in the range of the library's default (512): thresholds small caches never reach
		p.Cap = []int{64, 300, 512, 600}[r.Intn(4)]
		p.NKeys = p.Cap + 50 + r.Intn(p.Cap)
	case 0:
		p.Cap = r.Intn(5)
		p.NKeys = 2 + r.Intn(4)
	case 1:
		p.Cap = []int{5, 8, 16}[r.Intn(3)]
		p.NKeys = p.Cap + 1 + r.Intn(p.Cap+2)
	case 2:
		p.Cap = r.Intn(4)
		p.NKeys = 4*p.Cap + 8
	}
	n := 1 + r.Intn(12)
	switch r.Weighted([]int{60, 30, 9, 1}) {
	case 1:
		n = 10 + r.Intn(50)
	case 2:
		n = 60 + r.Intn(400) // crosses the internal rebuild threshold
	case 3:
		n = 500 + r.Intn(1500)
	}
	if p.Cap >= 64 {
		n = 2*p.Cap + r.Intn(2*p.Cap)
	}
	m, lbs := genMix(r, true)
	p.Clients = [][]Op{genOps(r, 0, n, p.NKeys, m, lbs, true)} // single client: values may repeat (every written value is unique in the concurrent shapes, where reads must be attributable to one write)
	p.MixedKeys = r.Chance(1, 4)
	if r.Chance(1, 6) {
		p.Bystander = 1
	}
	if p.Callback && n > 3 && r.Chance(1, 8) {
		p.CallbackAt = 1 + r.Intn(n-1)
	}
	if r.Chance(1, 6) {
		// some stores carry the nil value
		ops := p.Clients[0]
		for i := range ops {
			if ops[i].K == OpStore && r.Chance(1, 4) {
				ops[i].Val = NilVal
			}
		}
	}
	if r.Chance(1, 12) {
		// phases instead of a mix (replaces the history drawn above)
		p.Cap = []int{1, 2, 3, 8, 16, 64, 127, 128, 129, 130, 200, 257, 300}[r.Intn(13)]
		ops, nk := genPhased(r, p.Cap)
		p.Clients = [][]Op{ops}
		p.NKeys = nk
		p.CallbackAt = 0
		p.Callback = true
	}
	p.TypedVals = r.Chance(1, 4)
	if p.Callback && r.Chance(1, 8) {
		p.CBFailEvery = 1 + r.Intn(3)
		p.CBFail = []string{"panic", "goexit", "reregister"}[r.Weighted([]int{5, 2, 3})]
	}
	return p
}

func genCfg(r *detsim.Rand, nClients, estSteps int, pyields bool) simsync.Config {
	c := simsync.Config{StallTask: -1, PYields: pyields, Pool: simsync.PoolMode(r.Intn(4))}
	c.PostYields = r.Chance(1, 2)
	switch r.Weighted([]int{35, 35, 30}) {
	case 0:
		c.Policy = simsync.PolicyUniform
	case 1:
		c.Policy = simsync.PolicySticky
		c.SwitchPermille = []int{30, 100, 300, 600}[r.Intn(4)]
	case 2:
		c.Policy = simsync.PolicyPCT
		c.PCTDepth = 1 + r.Intn(3)
		c.PCTSteps = estSteps
	}
	if r.Chance(1, 4) { // F11: a stalled client
		c.StallTask = r.Intn(nClients)
		c.StallFrom = r.Intn(estSteps/2 + 1)
		c.StallLen = 1 + r.Intn(estSteps)
	}
	if c.Pool != simsync.PoolFresh && r.Chance(1, 3) {
		c.GetFreshPermille = 100
		c.PutDropPermille = 100
	}
	return c
}

// GenC10 draws a concurrent run: "small" (linearizability) or "large" (invariants).
func GenC10(r *detsim.Rand, tier string, forceShape string) *Plan {
	p := genC10(r, tier, forceShape)
	p.TypedVals = r.Chance(1, 3)
	if p.Callback && r.Chance(1, 8) {
		p.CBFailEvery = 1 + r.Intn(3)
		p.CBFail = []string{"panic", "reregister", "goexit"}[r.Weighted([]int{5, 3, 2})]
		if p.CBFail == "goexit" && p.Shape != "large" {
			p.CBFail = "panic" // a client that ends in the middle of an operation: only where invariants at quiescence are the oracle
		}
	}
	return p
}

func genC10(r *detsim.Rand, tier string, forceShape string) *Plan {
	p := &Plan{Prop: "C10", Callback: !r.Chance(1, 8), MixedKeys: r.Chance(1, 5)}
	shape := forceShape
	if shape == "" {
		shape = "small"
		if r.Chance(1, 40) {
			shape = "large"
		}
	}
	if forceShape == "" && r.Chance(1, 60) {
		shape = "huge"
	}
	p.Shape = shape
	if r.Chance(1, 4) {
		p.Bystander = 4 + r.Intn(12)
	}
	pyields := r.Chance(1, 2)
	if shape == "huge" {
		// a cache as large as the library's default one, full from the start; clients only load, update existing keys,
		// ask for Len and Dump: every sequential state then holds each key exactly once
		p.Cap = []int{256, 300, 512, 700}[r.Intn(4)]
		p.NKeys = p.Cap
		p.MixedKeys = false
		nc := 2 + r.Intn(4)
		tot := 0
		for c := 0; c < nc; c++ {
			n := 3 + r.Intn(6)
			tot += n
			p.Clients = append(p.Clients, genOps(r, c, n, p.NKeys, mix{store: 3, load: 4, ln: 1, dump: 4}, false))
		}
		p.Cfg = genCfg(r, nc, tot*8, false)
		p.Cfg.StepCap = 2000000
		return p
	}
	if shape == "small" {
		nc := 2 + r.Intn(3)
		p.Cap = r.Intn(4)
		p.NKeys = 2 + r.Intn(2)
		m, lbs := genMix(r, true)
		if r.Chance(1, 3) {
			m.dump = 3
		}
		if r.Chance(1, 5) {
			// recency under concurrency: a FULL cache of 2..5 entries (prefilled, one key more than it holds), clients that mostly
			// load - several hits on different entries that are not at the front overlap - and now and then dump or store the
			// one new key: the order the hits left behind shows in the Dump / in the victim of the overflow (seeded C10u lost
			// one of two overlapping promotions)
			p.Cap = 2 + r.Intn(4)
			p.NKeys = p.Cap + 1
			p.Prefill = p.Cap
			m, lbs = mix{store: 1, load: 6, ln: 1, dump: 2}, false
		}
		tot := 0
		for c := 0; c < nc; c++ {
			n := 2 + r.Intn(5)
			if tot+n > 20 {
				n = 2
			}
			tot += n
			p.Clients = append(p.Clients, genOps(r, c, n, p.NKeys, m, lbs))
		}
		est := tot * 6
		if pyields {
			est = tot * 20
		}
		p.Cfg = genCfg(r, nc, est, pyields)
	} else {
		nc := 4 + r.Intn(13)
		p.Cap = r.Intn(9)
		p.NKeys = 4*p.Cap + 8
		if r.Chance(1, 4) {
			p.NKeys = 3 + r.Intn(4) // small key set: heavy contention on few keys
		}
		m, lbs := genMix(r, true)
		per := 50 + r.Intn(451)
		if tier == "quick" {
			per = 50 + r.Intn(100)
		}
		for c := 0; c < nc; c++ {
			p.Clients = append(p.Clients, genOps(r, c, per, p.NKeys, m, lbs))
		}
		est := nc * per * 6
		if pyields {
			est *= 3
		}
		p.Cfg = genCfg(r, nc, est, pyields)
		p.Cfg.StepCap = 2000000
	}
	return p
}

// ---------------------------------------------------------------- systematic part of C09

// sysSpace describes one block of the systematic corpus: every operation
// sequence of length 1..MaxLen over NKeys keys on each capacity 0..MaxCap.
type sysSpace struct{ NKeys, MaxCap, MaxLen int }

func sysSpaces(tier string) []sysSpace {
	if tier == "thorough" {
		return []sysSpace{{2, 2, 6}, {3, 3, 5}}
	}
	return []sysSpace{{2, 2, 5}}
}

func (s sysSpace) alphabet() int { return 3*s.NKeys + 2 } // store/load/delete per key, len, dump

func (s sysSpace) size() uint64 {
	per, pw := uint64(0), uint64(1)
	for l := 1; l <= s.MaxLen; l++ {
		pw *= uint64(s.alphabet())
		per += pw
	}
	return per * uint64(s.MaxCap+1)
}

// fillCaps: capacities around powers of two up to well beyond the library's default; each gets one "fill" history
// (distinct keys stored until the cache has overflowed, Len after every store, every key loaded at the end).
// Negative entries are "churn" histories on capacity -c: 3c+300 distinct keys, i.e. more than 2c removals on a cache of more
// than 1024 entries - the internal index is rebuilt at least once while the cache is that large (seeded C09o did the rebuild
// in time slices and kept a stale half-built copy); they run under a clock that leaps.
var fillCaps = []int{255, 256, 257, 511, 512, 513, 1023, 1025, 4096, 4097, 32768, 65535, 65536, 65537, 70000, 131073, -1030, -1100, -1030,
	capMaxInt, capMaxInt - 1, capMaxInt / 2, capMaxInt/2 + 1}

// capacities at the limits of int (the "unbounded" idiom NewLRU(math.MaxInt) and its neighbours): 40 distinct keys, nothing may
// be evicted (seeded C09x computed capacity+1 as an int). On a 32-bit worker capMaxInt is 1<<31 - 1. (Capacities around 1<<31 on a
// 64-bit worker are left out: NewLRU pre-sizes its index with the capacity, which the runtime ignores only when it is absurd.)
const capMaxInt = int(^uint(0) >> 1)

func fillCases(tier string) int { return len(fillCaps) } // cheap enough for every run

// SysC09Total is the number of systematic single-client histories of a tier.
func SysC09Total(tier string) uint64 {
	var n uint64
	for _, s := range sysSpaces(tier) {
		n += s.size()
	}
	return n + uint64(fillCases(tier))
}

// fillPlan: capacity c, c+c/8+3 distinct keys (c+3 for the big ones: the cache finds the key of an evicted entry by a
// scan of its whole index, which the simulator additionally puts into a canonical order - many evictions on a big cache cost minutes).
func fillPlan(i int) *Plan {
	c := fillCaps[i]
	n := c + c/8 + 3
	if c > 1100 {
		n = c + 3
	}
	if c > 1<<30 {
		n = 40
	}
	clock := simsync.ClockMode(i % 4)
	leap := false
	if c < 0 {
		c = -c
		n = 3*c + 300
		clock = simsync.ClockJumpy
		leap = i%2 == 0 // every reading leaps / three in ten do
	}
	p := &Plan{Prop: "C09", Shape: "fill", Cap: c, NKeys: n, Callback: true, Sys: true}
	p.Cfg = simsync.Config{Policy: simsync.PolicyUniform, StallTask: -1, Pool: simsync.PoolLIFO, StepCap: 50000000, Clock: clock}
	if leap {
		p.Cfg.ClockLeapPermille = 1000
	}
	return p
}

// sysSpecial: the expensive special cases are spread over the 16 equal shares the driver hands to the workers: special
// case s sits in share s%16, at offset s/16 from the start of the share.
func sysSpecial(n, stride, fc uint64) (s uint64, ok bool) {
	s = n/stride + 16*(n%stride)
	return s, n%stride <= (fc-1)/16 && n/stride < 16 && s < fc
}

// SysC09 returns the n-th systematic history (n < SysC09Total).
func SysC09(tier string, n uint64) *Plan {
	total, fc := SysC09Total(tier), uint64(fillCases(tier))
	stride := (total + 15) / 16
	if s, ok := sysSpecial(n, stride, fc); ok {
		return fillPlan(int(s))
	}
	// special positions below n
	before := uint64(0)
	for s := uint64(0); s < fc; s++ {
		if pos := (s%16)*stride + s/16; pos < n {
			before++
		}
	}
	n -= before
	for _, s := range sysSpaces(tier) {
		if n >= s.size() {
			n -= s.size()
			continue
		}
		per := s.size() / uint64(s.MaxCap+1)
		cap := int(n / per)
		n %= per
		a := uint64(s.alphabet())
		l, pw := 1, a
		for n >= pw {
			n -= pw
			pw *= a
			l++
		}
		p := &Plan{Prop: "C09", Shape: "seq", Cap: cap, NKeys: s.NKeys, Callback: true, Sys: true}
		p.Cfg = simsync.Config{Policy: simsync.PolicyUniform, StallTask: -1, Pool: simsync.PoolLIFO, Clock: simsync.ClockMode(n * 0x9E3779B97F4A7C15 >> 40 & 3)}
		ops := make([]Op, l)
		vn := 0
		for i := l - 1; i >= 0; i-- {
			d := int(n % a)
			n /= a
			switch {
			case d < s.NKeys:
				ops[i] = Op{K: OpStore, Key: d}
			case d < 2*s.NKeys:
				ops[i] = Op{K: OpLoad, Key: d - s.NKeys}
			case d < 3*s.NKeys:
				ops[i] = Op{K: OpDelete, Key: d - 2*s.NKeys}
			case d == 3*s.NKeys:
				ops[i] = Op{K: OpLen}
			default:
				ops[i] = Op{K: OpDump}
			}
		}
		for i := range ops {
			if ops[i].K == OpStore {
				vn++
				ops[i].Val = fmt.Sprintf("v0.%d", vn)
			}
		}
		p.Clients = [][]Op{ops}
		return p
	}
	return nil
}
