package e1

import (
	"encoding/json"

	"verifsim/detsim"
	"verifsim/simsync"
)

type Engine struct {
	Shape string // force a C10 shape ("" = mixed)
}

func (Engine) Name() string { return "E1-lru-simulator" }

func (e Engine) Gen(prop, tier string, r *detsim.Rand) interface{} {
	var p *Plan
	if prop == "C09" {
		p = GenC09(r, tier)
	} else {
		p = GenC10(r, tier, e.Shape)
	}
	p.Cfg.Clock = simsync.ClockMode(r.Intn(4)) // the last draw: everything else of the plan is what it was before the clock existed
	return p
}

// GenIndexed returns the n-th case of the systematic corpus of C09 (every short operation sequence).
func (e Engine) GenIndexed(prop, tier string, n uint64) interface{} {
	if prop != "C09" || n >= SysC09Total(tier) {
		return nil
	}
	return SysC09(tier, n)
}

func (Engine) SystematicTotal(prop, tier string) uint64 {
	if prop != "C09" {
		return 0
	}
	return SysC09Total(tier)
}

func (Engine) Decode(raw json.RawMessage) (interface{}, error) {
	p := &Plan{}
	if err := json.Unmarshal(raw, p); err != nil {
		return nil, err
	}
	return p, nil
}

type sample struct {
	Plan     *Plan `json:"plan"`
	History  []Rec `json:"history"`
	Steps    int   `json:"scheduler_steps"`
	Switches int   `json:"context_switches"`
}

func (Engine) Run(plan interface{}, ch detsim.Chooser) *detsim.RunReport {
	p := plan.(*Plan)
	o := Run(p, ch)
	rep := &detsim.RunReport{V: o.V, NonTrivial: o.NonTrivial, Inconclusive: o.Inconclusive, Probes: o.Probes,
		Faults: detsim.Counter{}, Counters: detsim.Counter{}, States: o.States, PlanSchedHash: o.PlanSchedHash}
	if o.Res != nil {
		r := o.Res
		rep.LogHash, rep.SwitchHash, rep.Steps = r.LogHash, r.SwitchHash, r.Steps
		// fold what the clients observed into the log hash: a replay must reproduce results, not only the schedule
		for i := range o.Hist {
			h := &o.Hist[i]
			rep.LogHash = detsim.HashAdd(rep.LogHash, detsim.Hash64(h.Val+"\x00"+h.Dump)^uint64(h.N)<<1^h.Return<<20)
		}
		rep.Faults.Add("F1_pool_get_fresh", int64(r.FaultGetFresh))
		rep.Faults.Add("F2_pool_get_any", int64(r.FaultGetAny))
		rep.Faults.Add("F3_pool_put_drop", int64(r.FaultPutDrop))
		rep.Faults.Add("F9_preemptions", int64(r.Preempt))
		rep.Faults.Add("F10_pyield_switches", int64(r.PYieldSwitch))
		rep.Faults.Add("F11_stall_steps", int64(r.StallSteps))
		rep.Faults.Add("F14_clock_leaps", int64(r.ClockJumps))
		rep.Faults.Add("F14_clock_equal_readings", int64(r.ClockTies))
		rep.Counters.Add("clock_readings", int64(r.ClockReads))
		rep.Counters.Add("sleeps", int64(r.Sleeps))
		rep.Counters.Add("simulated_clock_us", r.SimNanos/1000)
		rep.Probes.Add("stall_while_holding_lock", int64(r.StallHolding))
		rep.Probes.Add("parked_on_held_lock", int64(r.LockWaits))
		rep.Counters.Add("context_switches", int64(r.Switches))
		rep.Counters.Add("ops", int64(len(o.Hist)))
		rep.Counters.Add("shape_"+p.Shape, 1)
		if p.Sys {
			rep.Counters.Add("systematic_cases_run", 1)
		}
		if p.Cfg.PYields {
			rep.Counters.Add("runs_with_pyields", 1)
		}
	}
	if p.Shape == "seq" {
		rep.NonTrivial = o.Probes["evictions"] > 0 && (o.Probes["restore_live_key"] > 0 || o.Probes["load_hit"] > 0)
	}
	h := o.Hist
	if len(h) > 40 {
		h = h[:40]
	}
	pp := *p
	if p.NOps() > 60 {
		pp.Clients = nil
	}
	sw := 0
	if o.Res != nil {
		sw = o.Res.Switches
	}
	rep.Sample = sample{Plan: &pp, History: h, Steps: rep.Steps, Switches: sw}
	return rep
}

func clonePlan(p *Plan) *Plan {
	q := *p
	q.Clients = make([][]Op, len(p.Clients))
	for i := range p.Clients {
		q.Clients[i] = append([]Op(nil), p.Clients[i]...)
	}
	return &q
}

func (Engine) Shrink(plan interface{}, try func(interface{}) bool) interface{} {
	cur := plan.(*Plan)
	progress := true
	for progress {
		progress = false
		// drop whole clients
		for i := 0; i < len(cur.Clients) && len(cur.Clients) > 1; i++ {
			c := clonePlan(cur)
			c.Clients = append(c.Clients[:i], c.Clients[i+1:]...)
			if c.Cfg.StallTask >= len(c.Clients) {
				c.Cfg.StallTask = -1
			}
			if try(c) {
				cur, progress = c, true
				i--
			}
		}
		// drop chunks of operations (ddmin style)
		for ci := range cur.Clients {
			for size := len(cur.Clients[ci]); size >= 1; size /= 2 {
				for start := 0; start+size <= len(cur.Clients[ci]); {
					c := clonePlan(cur)
					c.Clients[ci] = append(c.Clients[ci][:start], c.Clients[ci][start+size:]...)
					if try(c) {
						cur, progress = c, true
					} else {
						start += size
					}
				}
			}
		}
		// simpler configuration
		simpler := []func(*Plan) bool{
			func(p *Plan) bool { ok := p.Cfg.PYields; p.Cfg.PYields = false; return ok },
			func(p *Plan) bool { ok := p.Cfg.PostYields; p.Cfg.PostYields = false; return ok },
			func(p *Plan) bool { ok := p.Cfg.StallTask >= 0; p.Cfg.StallTask = -1; return ok },
			func(p *Plan) bool {
				ok := p.Cfg.GetFreshPermille+p.Cfg.PutDropPermille+p.Cfg.GetAnyPermille+p.Cfg.FlushPermille > 0
				p.Cfg.GetFreshPermille, p.Cfg.PutDropPermille, p.Cfg.GetAnyPermille, p.Cfg.FlushPermille = 0, 0, 0, 0
				return ok
			},
			func(p *Plan) bool { ok := p.Cfg.Pool != simsync.PoolFresh; p.Cfg.Pool = simsync.PoolFresh; return ok },
			func(p *Plan) bool {
				ok := p.Cfg.Policy != simsync.PolicyUniform
				p.Cfg.Policy, p.Cfg.PCTDepth = simsync.PolicyUniform, 0
				return ok
			},
			func(p *Plan) bool { ok := p.Cap > 0; p.Cap--; return ok },
			func(p *Plan) bool { ok := p.Callback; p.Callback = false; return ok },
			func(p *Plan) bool { ok := p.Bystander > 0; p.Bystander = 0; return ok },
			func(p *Plan) bool { ok := p.MixedKeys; p.MixedKeys = false; return ok },
		}
		for _, f := range simpler {
			c := clonePlan(cur)
			if f(c) && try(c) {
				cur, progress = c, true
			}
		}
		// smaller keys
		for ci := range cur.Clients {
			for oi := range cur.Clients[ci] {
				if cur.Clients[ci][oi].Key > 0 {
					c := clonePlan(cur)
					c.Clients[ci][oi].Key--
					if try(c) {
						cur, progress = c, true
					}
				}
			}
		}
	}
	return cur
}
