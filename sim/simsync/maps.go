package simsync

import (
	"reflect"
	"sort"
	"strconv"
	"unsafe"
)

// Iteration over Go maps is a source of nondeterminism the runtime does not
// let anyone seed. The scratch rewrite routes "for ... range m" over maps and
// reflect.Value.MapRange() through the helpers below: keys are put into a
// canonical order (by content), and the simulator then chooses the actual
// order (a permutation for up to 4 entries, a rotation and direction beyond).
// In direct mode the canonical order is used as it is.

// Entry is one element of a snapshot of the keys of a map; the value is read
// when asked for and entries deleted meanwhile are skipped by the loop, as the
// language specifies for range over a map.
type Entry[M ~map[K]V, K comparable, V any] struct {
	m M
	K K
}

func (e Entry[M, K, V]) Live() bool { _, ok := e.m[e.K]; return ok }
func (e Entry[M, K, V]) V() V       { return e.m[e.K] }

// MapEntries returns the keys of m in the order this execution iterates them.
func MapEntries[M ~map[K]V, K comparable, V any](m M) []Entry[M, K, V] {
	n := len(m)
	if n == 0 {
		return nil
	}
	es := make([]Entry[M, K, V], 0, n)
	for k := range m {
		es = append(es, Entry[M, K, V]{m, k})
	}
	if n == 1 {
		return es
	}
	idx := canonicalOrderOf(n, func(i int) reflect.Value { return reflect.ValueOf(es[i].K) })
	order := mapOrder(n)
	out := make([]Entry[M, K, V], n)
	for i := range out {
		out[i] = es[idx[order[i]]]
	}
	return out
}

var factorial = [...]int{1, 1, 2, 6, 24}

// mapOrder asks the simulator for the iteration order of n canonical positions.
func mapOrder(n int) []int {
	order := make([]int, n)
	for i := range order {
		order[i] = i
	}
	t := getCur()
	if t == nil || t.aborted || n < 2 {
		return order
	}
	if n <= 4 {
		// the c-th permutation in lexicographic order (0 = canonical order)
		c := rpc(req{k: kChoose, n: factorial[n], label: "maporder"}).n
		avail := append([]int(nil), order...)
		for i := 0; i < n; i++ {
			f := factorial[n-1-i]
			j := c / f
			c %= f
			order[i] = avail[j]
			avail = append(avail[:j], avail[j+1:]...)
		}
		return order
	}
	c := rpc(req{k: kChoose, n: 2 * n, label: "maporder"}).n
	start, rev := c%n, c >= n
	for i := range order {
		j := (start + i) % n
		if rev {
			j = (start - i + n) % n
		}
		order[i] = j
	}
	return order
}

// MapIter mirrors *reflect.MapIter for the rewritten x.MapRange() calls.
type MapIter struct {
	m    reflect.Value
	keys []reflect.Value
	pos  int
}

func MapRange(v reflect.Value) *MapIter {
	it := &MapIter{m: v, pos: -1}
	ks := v.MapKeys()
	n := len(ks)
	if n > 1 {
		idx := canonicalOrderOf(n, func(i int) reflect.Value { return ks[i] })
		order := mapOrder(n)
		it.keys = make([]reflect.Value, n)
		for i := range it.keys {
			it.keys[i] = ks[idx[order[i]]]
		}
	} else {
		it.keys = ks
	}
	return it
}

func (it *MapIter) Next() bool {
	for {
		it.pos++
		if it.pos >= len(it.keys) {
			return false
		}
		if it.m.MapIndex(it.keys[it.pos]).IsValid() {
			return true
		}
	}
}

func (it *MapIter) Key() reflect.Value   { return it.keys[it.pos] }
func (it *MapIter) Value() reflect.Value { return it.m.MapIndex(it.keys[it.pos]) }
func (it *MapIter) Reset(v reflect.Value) {
	*it = *MapRange(v)
}

// canonicalOrder sorts n keys by content. A cheap signature decides almost always (for a reflect.Type inside a key:
// its name, or for an anonymous type its kind, field names, field type names and tags, one level deep); only keys
// whose signatures tie are compared by their full rendering (the complete type string, which for deeply nested
// anonymous struct types is very long).
// canonicalOrderOf sorts n keys by a 64-bit hash of their content (no strings are built); keys whose hashes tie are
// compared by their full rendering.
func canonicalOrderOf(n int, key func(i int) reflect.Value) []int {
	hs := make([]uint64, n)
	for i := range hs {
		hs[i] = keyHash(fnvOff, key(i), 0)
	}
	var full []string
	fullOf := func(i int) string {
		if full == nil {
			full = make([]string, n)
		}
		if full[i] == "" {
			full[i] = "=" + valueStringMode(key(i), 0, true)
		}
		return full[i]
	}
	idx := make([]int, n)
	for i := range idx {
		idx[i] = i
	}
	sort.SliceStable(idx, func(a, b int) bool {
		x, y := idx[a], idx[b]
		if hs[x] != hs[y] {
			return hs[x] < hs[y]
		}
		return fullOf(x) < fullOf(y)
	})
	return idx
}

const (
	fnvOff   = uint64(1469598103934665603)
	fnvPrime = uint64(1099511628211)
)

func mix(h, v uint64) uint64 {
	for i := 0; i < 8; i++ {
		h ^= v & 0xff
		h *= fnvPrime
		v >>= 8
	}
	return h
}

func mixStr(h uint64, s string) uint64 {
	for i := 0; i < len(s); i++ {
		h ^= uint64(s[i])
		h *= fnvPrime
	}
	return mix(h, uint64(len(s)))
}

// typeHash is the hash of the cheap signature of a type (memoised with it).
func typeHash(t reflect.Type) uint64 {
	p := typePtr(t)
	if h, ok := sigHashGet(p); ok {
		return h
	}
	typeSig(t, 0) // fills the memo
	if h, ok := sigHashGet(p); ok {
		return h
	}
	return mixStr(fnvOff, typeSig1(t, 0))
}

// keyHash folds the content of a key into h, following the same rules as valueStringMode with full == false.
func keyHash(h uint64, v reflect.Value, depth int) uint64 {
	if !v.IsValid() {
		return mix(h, 1)
	}
	if depth > 4 {
		return mix(h, typeHash(v.Type()))
	}
	if v.Kind() == reflect.Ptr && (v.Type() == rtypePtrType || v.Type().Implements(typeOfType)) {
		if v.CanInterface() {
			if t, ok := v.Interface().(reflect.Type); ok && t != nil {
				return mix(mix(h, 2), typeHash(t))
			}
		} else if !v.IsNil() {
			if t := typeFromPtr(v); t != nil {
				return mix(mix(h, 2), typeHash(t))
			}
		}
	}
	switch v.Kind() {
	case reflect.String:
		return mixStr(mix(h, 3), v.String())
	case reflect.Int, reflect.Int8, reflect.Int16, reflect.Int32, reflect.Int64:
		return mix(mix(h, 4), uint64(v.Int()))
	case reflect.Uint, reflect.Uint8, reflect.Uint16, reflect.Uint32, reflect.Uint64, reflect.Uintptr:
		return mix(mix(h, 5), v.Uint())
	case reflect.Bool:
		if v.Bool() {
			return mix(h, 7)
		}
		return mix(h, 6)
	case reflect.Float32, reflect.Float64:
		return mixStr(mix(h, 8), strconv.FormatFloat(v.Float(), 'g', -1, 64))
	case reflect.Interface:
		if v.IsNil() {
			return mix(h, 1)
		}
		return keyHash(h, v.Elem(), depth)
	case reflect.Ptr:
		if v.IsNil() {
			return mix(mix(h, 9), typeHash(v.Type()))
		}
		return keyHash(mix(mix(h, 10), typeHash(v.Type().Elem())), v.Elem(), depth+1)
	case reflect.Struct:
		h = mix(mix(h, 11), typeHash(v.Type()))
		for i := 0; i < v.NumField(); i++ {
			h = keyHash(h, v.Field(i), depth+1)
		}
		return h
	case reflect.Array:
		h = mix(mix(h, 12), typeHash(v.Type()))
		for i := 0; i < v.Len(); i++ {
			h = keyHash(h, v.Index(i), depth+1)
		}
		return h
	}
	return mix(mix(h, 13), typeHash(v.Type()))
}

// KeyString renders a map key by content, without addresses where possible.
func KeyString(k interface{}) string {
	return valueString(reflect.ValueOf(k), 0)
}

func valueString(v reflect.Value, depth int) string { return valueStringMode(v, depth, true) }

func pad20(u uint64) string {
	var b [20]byte
	for i := 19; i >= 0; i-- {
		b[i] = byte('0' + u%10)
		u /= 10
	}
	return string(b[:])
}

// A small direct-mapped memo of type signatures, keyed by the type's identity. It is touched by whichever task runs
// (tasks never run at the same time) through accessors the race detector does not instrument: plain loads and stores,
// which neither produce reports about the simulator's own bookkeeping nor add happens-before edges between tasks.
type sigEnt struct {
	t   reflect.Type // pins the type: its address cannot be reused while the entry lives
	p   unsafe.Pointer
	sig string
	h   uint64
}

//go:norace
func sigHashGet(p unsafe.Pointer) (uint64, bool) {
	e := &sigTab[(uintptr(p)>>4^uintptr(p)>>17)&(1<<13-1)]
	if e.p == p {
		return e.h, true
	}
	return 0, false
}

var sigTab [1 << 13]sigEnt

func typePtr(t reflect.Type) unsafe.Pointer { return (*[2]unsafe.Pointer)(unsafe.Pointer(&t))[1] }

//go:norace
func sigGet(p unsafe.Pointer) (string, bool) {
	e := &sigTab[(uintptr(p)>>4^uintptr(p)>>17)&(1<<13-1)]
	if e.p == p {
		return e.sig, true
	}
	return "", false
}

//go:norace
func sigPut(t reflect.Type, p unsafe.Pointer, sig string) {
	e := &sigTab[(uintptr(p)>>4^uintptr(p)>>17)&(1<<13-1)]
	e.t, e.p, e.sig, e.h = t, p, sig, mixStr(fnvOff, sig)
}

// typeSig is the cheap signature of a type (see canonicalOrder).
func typeSig(t reflect.Type, depth int) string {
	if depth == 0 {
		p := typePtr(t)
		if s, ok := sigGet(p); ok {
			return s
		}
		s := typeSig1(t, 0)
		sigPut(t, p, s)
		return s
	}
	return typeSig1(t, depth)
}

func typeSig1(t reflect.Type, depth int) string {
	if t.Name() != "" {
		return t.PkgPath() + "." + t.Name()
	}
	switch t.Kind() {
	case reflect.Ptr, reflect.Slice, reflect.Array, reflect.Chan:
		if depth >= 2 {
			return t.Kind().String()
		}
		return t.Kind().String() + "(" + typeSig1(t.Elem(), depth+1) + ")"
	case reflect.Map:
		if depth >= 2 {
			return "map"
		}
		return "map(" + typeSig1(t.Key(), depth+1) + "," + typeSig1(t.Elem(), depth+1) + ")"
	case reflect.Struct:
		s := "struct#" + strconv.Itoa(t.NumField()) + "{"
		for i := 0; i < t.NumField(); i++ {
			f := t.Field(i)
			s += f.Name + ":" + f.Type.Kind().String() + f.Type.Name() + "`" + string(f.Tag) + "`;"
		}
		return s + "}"
	}
	return t.Kind().String()
}

func typeText(t reflect.Type, full bool) string {
	if full {
		return "type:" + t.PkgPath() + "." + t.String()
	}
	return "type:" + typeSig(t, 0)
}

var typeOfType = reflect.TypeOf((*reflect.Type)(nil)).Elem()

// rtypePtrType is *reflect.rtype, the dynamic type of the values package reflect hands out as reflect.Type.
var rtypePtrType = reflect.TypeOf(reflect.TypeOf(0))

func valueStringMode(v reflect.Value, depth int, full bool) string {
	if !v.IsValid() {
		return "<nil>"
	}
	if depth > 4 {
		return typeText(v.Type(), full)
	}
	// a reflect.Type held in the value: its String() is its content. (*reflect.rtype is by far the most common
	// implementation; the general Implements test is slow and only made for other pointer types.)
	if v.Kind() == reflect.Ptr && (v.Type() == rtypePtrType || v.Type().Implements(typeOfType)) {
		if v.CanInterface() {
			if t, ok := v.Interface().(reflect.Type); ok && t != nil {
				return typeText(t, full)
			}
		} else if v.Kind() == reflect.Ptr && !v.IsNil() {
			// unexported field holding a *rtype: rebuild an interface value from its pointer
			if t := typeFromPtr(v); t != nil {
				return typeText(t, full)
			}
		}
	}
	switch v.Kind() {
	case reflect.String:
		return "s:" + v.String()
	case reflect.Int, reflect.Int8, reflect.Int16, reflect.Int32, reflect.Int64:
		return "i:" + pad20(uint64(v.Int()+(1<<62)))
	case reflect.Uint, reflect.Uint8, reflect.Uint16, reflect.Uint32, reflect.Uint64, reflect.Uintptr:
		return "u:" + pad20(v.Uint())
	case reflect.Bool:
		return "b:" + strconv.FormatBool(v.Bool())
	case reflect.Float32, reflect.Float64:
		return "f:" + strconv.FormatFloat(v.Float(), 'g', -1, 64)
	case reflect.Interface:
		if v.IsNil() {
			return "<nil>"
		}
		return valueStringMode(v.Elem(), depth, full)
	case reflect.Ptr:
		if v.IsNil() {
			return typeText(v.Type(), full) + ":nil"
		}
		return "&" + typeText(v.Type().Elem(), full) + valueStringMode(v.Elem(), depth+1, full)
	case reflect.Struct:
		s := typeText(v.Type(), full) + "{"
		for i := 0; i < v.NumField(); i++ {
			s += valueStringMode(v.Field(i), depth+1, full) + ","
		}
		return s + "}"
	case reflect.Array:
		s := typeText(v.Type(), full) + "["
		for i := 0; i < v.Len(); i++ {
			s += valueStringMode(v.Index(i), depth+1, full) + ","
		}
		return s + "]"
	}
	return typeText(v.Type(), full)
}

// typeFromPtr turns a reflect.Value holding a pointer that implements
// reflect.Type (obtained through an unexported field) into the reflect.Type.
func typeFromPtr(v reflect.Value) (t reflect.Type) {
	defer func() {
		if recover() != nil {
			t = nil
		}
	}()
	p := reflect.NewAt(v.Type().Elem(), unsafe.Pointer(v.Pointer()))
	if x, ok := p.Interface().(reflect.Type); ok {
		return x
	}
	return nil
}
