package simsync

import (
	"fmt"
	"reflect"
	"sort"
	"strconv"
	"unsafe"
)

// Iteration over Go maps is a source of nondeterminism the runtime does not
// let anyone seed. The scratch rewrite routes "for ... range m" over maps and
// reflect.Value.MapRange() through the helpers below: keys are put into a
// canonical order (by content), and the simulator then chooses the actual
// order (a permutation for up to 4 entries, a rotation and direction beyond).
// In direct mode the canonical order is used as it is.

// Entry is one element of a snapshot of the keys of a map; the value is read
// when asked for and entries deleted meanwhile are skipped by the loop, as the
// language specifies for range over a map.
type Entry[M ~map[K]V, K comparable, V any] struct {
	m M
	K K
}

func (e Entry[M, K, V]) Live() bool { _, ok := e.m[e.K]; return ok }
func (e Entry[M, K, V]) V() V       { return e.m[e.K] }

// MapEntries returns the keys of m in the order this execution iterates them.
func MapEntries[M ~map[K]V, K comparable, V any](m M) []Entry[M, K, V] {
	n := len(m)
	if n == 0 {
		return nil
	}
	es := make([]Entry[M, K, V], 0, n)
	for k := range m {
		es = append(es, Entry[M, K, V]{m, k})
	}
	if n == 1 {
		return es
	}
	keys := make([]string, n)
	for i := range es {
		keys[i] = KeyString(es[i].K)
	}
	idx := make([]int, n)
	for i := range idx {
		idx[i] = i
	}
	sort.SliceStable(idx, func(a, b int) bool { return keys[idx[a]] < keys[idx[b]] })
	order := mapOrder(n)
	out := make([]Entry[M, K, V], n)
	for i := range out {
		out[i] = es[idx[order[i]]]
	}
	return out
}

var factorial = [...]int{1, 1, 2, 6, 24}

// mapOrder asks the simulator for the iteration order of n canonical positions.
func mapOrder(n int) []int {
	order := make([]int, n)
	for i := range order {
		order[i] = i
	}
	t := getCur()
	if t == nil || t.aborted || n < 2 {
		return order
	}
	if n <= 4 {
		// the c-th permutation in lexicographic order (0 = canonical order)
		c := rpc(req{k: kChoose, n: factorial[n], label: "maporder"}).n
		avail := append([]int(nil), order...)
		for i := 0; i < n; i++ {
			f := factorial[n-1-i]
			j := c / f
			c %= f
			order[i] = avail[j]
			avail = append(avail[:j], avail[j+1:]...)
		}
		return order
	}
	c := rpc(req{k: kChoose, n: 2 * n, label: "maporder"}).n
	start, rev := c%n, c >= n
	for i := range order {
		j := (start + i) % n
		if rev {
			j = (start - i + n) % n
		}
		order[i] = j
	}
	return order
}

// MapIter mirrors *reflect.MapIter for the rewritten x.MapRange() calls.
type MapIter struct {
	m    reflect.Value
	keys []reflect.Value
	pos  int
}

func MapRange(v reflect.Value) *MapIter {
	it := &MapIter{m: v, pos: -1}
	ks := v.MapKeys()
	n := len(ks)
	if n > 1 {
		strs := make([]string, n)
		for i := range ks {
			strs[i] = valueString(ks[i], 0)
		}
		idx := make([]int, n)
		for i := range idx {
			idx[i] = i
		}
		sort.SliceStable(idx, func(a, b int) bool { return strs[idx[a]] < strs[idx[b]] })
		order := mapOrder(n)
		it.keys = make([]reflect.Value, n)
		for i := range it.keys {
			it.keys[i] = ks[idx[order[i]]]
		}
	} else {
		it.keys = ks
	}
	return it
}

func (it *MapIter) Next() bool {
	for {
		it.pos++
		if it.pos >= len(it.keys) {
			return false
		}
		if it.m.MapIndex(it.keys[it.pos]).IsValid() {
			return true
		}
	}
}

func (it *MapIter) Key() reflect.Value   { return it.keys[it.pos] }
func (it *MapIter) Value() reflect.Value { return it.m.MapIndex(it.keys[it.pos]) }
func (it *MapIter) Reset(v reflect.Value) {
	*it = *MapRange(v)
}

// KeyString renders a map key by content, without addresses where possible.
func KeyString(k interface{}) string {
	return valueString(reflect.ValueOf(k), 0)
}

var typeOfType = reflect.TypeOf((*reflect.Type)(nil)).Elem()

func valueString(v reflect.Value, depth int) string {
	if !v.IsValid() {
		return "<nil>"
	}
	if depth > 4 {
		return v.Type().String()
	}
	// a reflect.Type held in the value: its String() is its content
	if v.Type().Implements(typeOfType) && v.Kind() != reflect.Interface {
		if v.CanInterface() {
			if t, ok := v.Interface().(reflect.Type); ok && t != nil {
				return "type:" + t.PkgPath() + "." + t.String()
			}
		} else if v.Kind() == reflect.Ptr && !v.IsNil() {
			// unexported field holding a *rtype: rebuild an interface value from its pointer
			if t := typeFromPtr(v); t != nil {
				return "type:" + t.PkgPath() + "." + t.String()
			}
		}
	}
	switch v.Kind() {
	case reflect.String:
		return "s:" + v.String()
	case reflect.Int, reflect.Int8, reflect.Int16, reflect.Int32, reflect.Int64:
		return "i:" + fmt.Sprintf("%020d", v.Int()+(1<<62))
	case reflect.Uint, reflect.Uint8, reflect.Uint16, reflect.Uint32, reflect.Uint64, reflect.Uintptr:
		return "u:" + fmt.Sprintf("%020d", v.Uint())
	case reflect.Bool:
		return "b:" + strconv.FormatBool(v.Bool())
	case reflect.Float32, reflect.Float64:
		return "f:" + strconv.FormatFloat(v.Float(), 'g', -1, 64)
	case reflect.Interface:
		if v.IsNil() {
			return "<nil>"
		}
		return valueString(v.Elem(), depth)
	case reflect.Ptr:
		if v.IsNil() {
			return v.Type().String() + ":nil"
		}
		return "&" + v.Type().Elem().String() + valueString(v.Elem(), depth+1)
	case reflect.Struct:
		s := v.Type().String() + "{"
		for i := 0; i < v.NumField(); i++ {
			s += valueString(v.Field(i), depth+1) + ","
		}
		return s + "}"
	case reflect.Array:
		s := v.Type().String() + "["
		for i := 0; i < v.Len(); i++ {
			s += valueString(v.Index(i), depth+1) + ","
		}
		return s + "]"
	}
	return v.Type().String()
}

// typeFromPtr turns a reflect.Value holding a pointer that implements
// reflect.Type (obtained through an unexported field) into the reflect.Type.
func typeFromPtr(v reflect.Value) (t reflect.Type) {
	defer func() {
		if recover() != nil {
			t = nil
		}
	}()
	p := reflect.NewAt(v.Type().Elem(), unsafe.Pointer(v.Pointer()))
	if x, ok := p.Interface().(reflect.Type); ok {
		return x
	}
	return nil
}
