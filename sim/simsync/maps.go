package simsync

import (
	"fmt"
	"reflect"
	"sort"
	"strconv"
	"unsafe"
)

// Iteration over Go maps is a source of nondeterminism the runtime does not
// let anyone seed. The scratch rewrite routes "for ... range m" over maps and
// reflect.Value.MapRange() through the helpers below: keys are put into a
// canonical order (by content), and the simulator then chooses the actual
// order (a permutation for up to 4 entries, a rotation and direction beyond).
// In direct mode the canonical order is used as it is.

// Entry is one element of a snapshot of the keys of a map; the value is read
// when asked for and entries deleted meanwhile are skipped by the loop, as the
// language specifies for range over a map.
type Entry[M ~map[K]V, K comparable, V any] struct {
	m M
	K K
}

func (e Entry[M, K, V]) Live() bool { _, ok := e.m[e.K]; return ok }
func (e Entry[M, K, V]) V() V       { return e.m[e.K] }

// MapEntries returns the keys of m in the order this execution iterates them.
func MapEntries[M ~map[K]V, K comparable, V any](m M) []Entry[M, K, V] {
	n := len(m)
	if n == 0 {
		return nil
	}
	es := make([]Entry[M, K, V], 0, n)
	for k := range m {
		es = append(es, Entry[M, K, V]{m, k})
	}
	if n == 1 {
		return es
	}
	idx := canonicalOrder(n, func(i int, full bool) string { return valueStringMode(reflect.ValueOf(es[i].K), 0, full) })
	order := mapOrder(n)
	out := make([]Entry[M, K, V], n)
	for i := range out {
		out[i] = es[idx[order[i]]]
	}
	return out
}

var factorial = [...]int{1, 1, 2, 6, 24}

// mapOrder asks the simulator for the iteration order of n canonical positions.
func mapOrder(n int) []int {
	order := make([]int, n)
	for i := range order {
		order[i] = i
	}
	t := getCur()
	if t == nil || t.aborted || n < 2 {
		return order
	}
	if n <= 4 {
		// the c-th permutation in lexicographic order (0 = canonical order)
		c := rpc(req{k: kChoose, n: factorial[n], label: "maporder"}).n
		avail := append([]int(nil), order...)
		for i := 0; i < n; i++ {
			f := factorial[n-1-i]
			j := c / f
			c %= f
			order[i] = avail[j]
			avail = append(avail[:j], avail[j+1:]...)
		}
		return order
	}
	c := rpc(req{k: kChoose, n: 2 * n, label: "maporder"}).n
	start, rev := c%n, c >= n
	for i := range order {
		j := (start + i) % n
		if rev {
			j = (start - i + n) % n
		}
		order[i] = j
	}
	return order
}

// MapIter mirrors *reflect.MapIter for the rewritten x.MapRange() calls.
type MapIter struct {
	m    reflect.Value
	keys []reflect.Value
	pos  int
}

func MapRange(v reflect.Value) *MapIter {
	it := &MapIter{m: v, pos: -1}
	ks := v.MapKeys()
	n := len(ks)
	if n > 1 {
		idx := canonicalOrder(n, func(i int, full bool) string { return valueStringMode(ks[i], 0, full) })
		order := mapOrder(n)
		it.keys = make([]reflect.Value, n)
		for i := range it.keys {
			it.keys[i] = ks[idx[order[i]]]
		}
	} else {
		it.keys = ks
	}
	return it
}

func (it *MapIter) Next() bool {
	for {
		it.pos++
		if it.pos >= len(it.keys) {
			return false
		}
		if it.m.MapIndex(it.keys[it.pos]).IsValid() {
			return true
		}
	}
}

func (it *MapIter) Key() reflect.Value   { return it.keys[it.pos] }
func (it *MapIter) Value() reflect.Value { return it.m.MapIndex(it.keys[it.pos]) }
func (it *MapIter) Reset(v reflect.Value) {
	*it = *MapRange(v)
}

// canonicalOrder sorts n keys by content. A cheap signature decides almost always (for a reflect.Type inside a key:
// its name, or for an anonymous type its kind, field names, field type names and tags, one level deep); only keys
// whose signatures tie are compared by their full rendering (the complete type string, which for deeply nested
// anonymous struct types is very long).
func canonicalOrder(n int, render func(i int, full bool) string) []int {
	sig := make([]string, n)
	for i := range sig {
		sig[i] = render(i, false)
	}
	var full []string
	fullOf := func(i int) string {
		if full == nil {
			full = make([]string, n)
		}
		if full[i] == "" {
			full[i] = "=" + render(i, true)
		}
		return full[i]
	}
	idx := make([]int, n)
	for i := range idx {
		idx[i] = i
	}
	sort.SliceStable(idx, func(a, b int) bool {
		x, y := idx[a], idx[b]
		if sig[x] != sig[y] {
			return sig[x] < sig[y]
		}
		return fullOf(x) < fullOf(y)
	})
	return idx
}

// KeyString renders a map key by content, without addresses where possible.
func KeyString(k interface{}) string {
	return valueString(reflect.ValueOf(k), 0)
}

func valueString(v reflect.Value, depth int) string { return valueStringMode(v, depth, true) }

// typeSig is the cheap signature of a type (see canonicalOrder).
func typeSig(t reflect.Type, depth int) string {
	if t.Name() != "" {
		return t.PkgPath() + "." + t.Name()
	}
	switch t.Kind() {
	case reflect.Ptr, reflect.Slice, reflect.Array, reflect.Chan:
		if depth >= 2 {
			return t.Kind().String()
		}
		return t.Kind().String() + "(" + typeSig(t.Elem(), depth+1) + ")"
	case reflect.Map:
		if depth >= 2 {
			return "map"
		}
		return "map(" + typeSig(t.Key(), depth+1) + "," + typeSig(t.Elem(), depth+1) + ")"
	case reflect.Struct:
		s := "struct#" + strconv.Itoa(t.NumField()) + "{"
		for i := 0; i < t.NumField(); i++ {
			f := t.Field(i)
			s += f.Name + ":" + f.Type.Kind().String() + f.Type.Name() + "`" + string(f.Tag) + "`;"
		}
		return s + "}"
	}
	return t.Kind().String()
}

func typeText(t reflect.Type, full bool) string {
	if full {
		return "type:" + t.PkgPath() + "." + t.String()
	}
	return "type:" + typeSig(t, 0)
}

var typeOfType = reflect.TypeOf((*reflect.Type)(nil)).Elem()

func valueStringMode(v reflect.Value, depth int, full bool) string {
	if !v.IsValid() {
		return "<nil>"
	}
	if depth > 4 {
		return typeText(v.Type(), full)
	}
	// a reflect.Type held in the value: its String() is its content
	if v.Type().Implements(typeOfType) && v.Kind() != reflect.Interface {
		if v.CanInterface() {
			if t, ok := v.Interface().(reflect.Type); ok && t != nil {
				return typeText(t, full)
			}
		} else if v.Kind() == reflect.Ptr && !v.IsNil() {
			// unexported field holding a *rtype: rebuild an interface value from its pointer
			if t := typeFromPtr(v); t != nil {
				return typeText(t, full)
			}
		}
	}
	switch v.Kind() {
	case reflect.String:
		return "s:" + v.String()
	case reflect.Int, reflect.Int8, reflect.Int16, reflect.Int32, reflect.Int64:
		return "i:" + fmt.Sprintf("%020d", v.Int()+(1<<62))
	case reflect.Uint, reflect.Uint8, reflect.Uint16, reflect.Uint32, reflect.Uint64, reflect.Uintptr:
		return "u:" + fmt.Sprintf("%020d", v.Uint())
	case reflect.Bool:
		return "b:" + strconv.FormatBool(v.Bool())
	case reflect.Float32, reflect.Float64:
		return "f:" + strconv.FormatFloat(v.Float(), 'g', -1, 64)
	case reflect.Interface:
		if v.IsNil() {
			return "<nil>"
		}
		return valueStringMode(v.Elem(), depth, full)
	case reflect.Ptr:
		if v.IsNil() {
			return typeText(v.Type(), full) + ":nil"
		}
		return "&" + typeText(v.Type().Elem(), full) + valueStringMode(v.Elem(), depth+1, full)
	case reflect.Struct:
		s := typeText(v.Type(), full) + "{"
		for i := 0; i < v.NumField(); i++ {
			s += valueStringMode(v.Field(i), depth+1, full) + ","
		}
		return s + "}"
	case reflect.Array:
		s := typeText(v.Type(), full) + "["
		for i := 0; i < v.Len(); i++ {
			s += valueStringMode(v.Index(i), depth+1, full) + ","
		}
		return s + "]"
	}
	return typeText(v.Type(), full)
}

// typeFromPtr turns a reflect.Value holding a pointer that implements
// reflect.Type (obtained through an unexported field) into the reflect.Type.
func typeFromPtr(v reflect.Value) (t reflect.Type) {
	defer func() {
		if recover() != nil {
			t = nil
		}
	}()
	p := reflect.NewAt(v.Type().Elem(), unsafe.Pointer(v.Pointer()))
	if x, ok := p.Interface().(reflect.Type); ok {
		return x
	}
	return nil
}
