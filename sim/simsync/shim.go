package simsync

import (
	realsync "sync"
	"sync/atomic"
	"time"
	"unsafe"
)

// A Locker represents an object that can be locked and unlocked.
type Locker interface {
	Lock()
	Unlock()
}

type noCopy struct{}

func (*noCopy) Lock()   {}
func (*noCopy) Unlock() {}

// postYield is called right after a release-type operation took effect.
func postYield() {
	if t := getCur(); t != nil && !t.aborted && t.sim.cfg.PostYields {
		rpc(req{k: kYield})
	}
}

// ---------------------------------------------------------------- Mutex

type Mutex struct {
	_    noCopy
	real realsync.Mutex // direct mode only
	sem  uint64         // race-detector address
}

func (m *Mutex) Lock() {
	if getCur() == nil {
		m.real.Lock()
		return
	}
	v := rpc(req{k: kLock, p: unsafe.Pointer(m)})
	if !v.abort {
		getCur().lastAcq = v.seq
	}
	raceAcquire(unsafe.Pointer(&m.sem))
}

func (m *Mutex) TryLock() bool {
	if getCur() == nil {
		return m.real.TryLock()
	}
	v := rpc(req{k: kTryLock, p: unsafe.Pointer(m)})
	if v.abort || v.n == 0 {
		return false
	}
	getCur().lastAcq = v.seq
	raceAcquire(unsafe.Pointer(&m.sem))
	return true
}

func (m *Mutex) Unlock() {
	if getCur() == nil {
		m.real.Unlock()
		return
	}
	raceRelease(unsafe.Pointer(&m.sem))
	rpc(req{k: kUnlock, p: unsafe.Pointer(m)})
	postYield()
}

// ---------------------------------------------------------------- RWMutex

type RWMutex struct {
	_         noCopy
	real      realsync.RWMutex
	readerSem uint64
	writerSem uint64
}

func (rw *RWMutex) RLock() {
	if getCur() == nil {
		rw.real.RLock()
		return
	}
	v := rpc(req{k: kRLock, p: unsafe.Pointer(rw)})
	if !v.abort {
		getCur().lastAcq = v.seq
	}
	raceAcquire(unsafe.Pointer(&rw.readerSem))
}

func (rw *RWMutex) RUnlock() {
	if getCur() == nil {
		rw.real.RUnlock()
		return
	}
	raceReleaseMerge(unsafe.Pointer(&rw.writerSem))
	rpc(req{k: kRUnlock, p: unsafe.Pointer(rw)})
	postYield()
}

func (rw *RWMutex) Lock() {
	if getCur() == nil {
		rw.real.Lock()
		return
	}
	// as in the real RWMutex: first announce (new readers are held back from
	// now on), then wait for the active readers to leave
	rpc(req{k: kRWCommit, p: unsafe.Pointer(rw)})
	v := rpc(req{k: kRWAcquire, p: unsafe.Pointer(rw)})
	if !v.abort {
		getCur().lastAcq = v.seq
	}
	raceAcquire(unsafe.Pointer(&rw.readerSem))
	raceAcquire(unsafe.Pointer(&rw.writerSem))
}

func (rw *RWMutex) Unlock() {
	if getCur() == nil {
		rw.real.Unlock()
		return
	}
	raceRelease(unsafe.Pointer(&rw.readerSem))
	rpc(req{k: kRWUnlock, p: unsafe.Pointer(rw)})
	postYield()
}

func (rw *RWMutex) TryLock() bool {
	if getCur() == nil {
		return rw.real.TryLock()
	}
	v := rpc(req{k: kTryLock, p: unsafe.Pointer(rw)})
	if v.abort || v.n == 0 {
		return false
	}
	getCur().lastAcq = v.seq
	raceAcquire(unsafe.Pointer(&rw.readerSem))
	raceAcquire(unsafe.Pointer(&rw.writerSem))
	return true
}

func (rw *RWMutex) TryRLock() bool {
	if getCur() == nil {
		return rw.real.TryRLock()
	}
	v := rpc(req{k: kTryRLock, p: unsafe.Pointer(rw)})
	if v.abort || v.n == 0 {
		return false
	}
	getCur().lastAcq = v.seq
	raceAcquire(unsafe.Pointer(&rw.readerSem))
	return true
}

type rlocker RWMutex

func (r *rlocker) Lock()   { (*RWMutex)(r).RLock() }
func (r *rlocker) Unlock() { (*RWMutex)(r).RUnlock() }

func (rw *RWMutex) RLocker() Locker { return (*rlocker)(rw) }

// ---------------------------------------------------------------- Once

type Once struct {
	_    noCopy
	done uint32
}

func (o *Once) Do(f func()) {
	if getCur() == nil {
		if atomic.LoadUint32(&o.done) == 0 {
			defer atomic.StoreUint32(&o.done, 1)
			f()
		}
		return
	}
	rpc(req{k: kYield, p: unsafe.Pointer(o)})
	if atomic.LoadUint32(&o.done) == 1 {
		return
	}
	v := rpc(req{k: kOnceEnter, p: unsafe.Pointer(o)})
	if v.abort || v.n == 0 {
		return
	}
	defer func() {
		atomic.StoreUint32(&o.done, 1)
		rpc(req{k: kOnceDone, p: unsafe.Pointer(o)})
	}()
	f()
}

// OnceFunc, OnceValue and OnceValues as in package sync (Go 1.21), on top of the simulated Once.
func OnceFunc(f func()) func() {
	var once Once
	var valid bool
	var p interface{}
	g := func() {
		defer func() {
			p = recover()
			if !valid {
				panic(p)
			}
		}()
		f()
		f = nil
		valid = true
	}
	return func() {
		once.Do(g)
		if !valid {
			panic(p)
		}
	}
}

func OnceValue[T any](f func() T) func() T {
	var once Once
	var valid bool
	var p interface{}
	var result T
	g := func() {
		defer func() {
			p = recover()
			if !valid {
				panic(p)
			}
		}()
		result = f()
		f = nil
		valid = true
	}
	return func() T {
		once.Do(g)
		if !valid {
			panic(p)
		}
		return result
	}
}

func OnceValues[T1, T2 any](f func() (T1, T2)) func() (T1, T2) {
	var once Once
	var valid bool
	var p interface{}
	var r1 T1
	var r2 T2
	g := func() {
		defer func() {
			p = recover()
			if !valid {
				panic(p)
			}
		}()
		r1, r2 = f()
		f = nil
		valid = true
	}
	return func() (T1, T2) {
		once.Do(g)
		if !valid {
			panic(p)
		}
		return r1, r2
	}
}

// ---------------------------------------------------------------- Pool

type Pool struct {
	_   noCopy
	New func() interface{}
}

var poolRaceHash [4096]uint64

func poolRaceAddr(x interface{}) unsafe.Pointer {
	ptr := uintptr((*[2]unsafe.Pointer)(unsafe.Pointer(&x))[1])
	h := uint32((uint64(uint32(ptr)) * 0x85ebca6b) >> 16)
	return unsafe.Pointer(&poolRaceHash[h%uint32(len(poolRaceHash))])
}

// direct-mode pools: always fresh unless DirectPoolRecycle is set (single
// goroutine use only), in which case a simple LIFO per pool is kept.
var (
	DirectPoolRecycle bool
	directPools       = map[*Pool][]interface{}{}
)

// ResetDirectPools forgets every object kept by direct-mode pools.
func ResetDirectPools() { directPools = map[*Pool][]interface{}{} }

func (p *Pool) Put(x interface{}) {
	if x == nil {
		return
	}
	if getCur() == nil {
		if DirectPoolRecycle {
			directPools[p] = append(directPools[p], x)
		}
		return
	}
	raceReleaseMerge(poolRaceAddr(x))
	rpc(req{k: kPoolPut, p: unsafe.Pointer(p), x: x})
	postYield()
}

func (p *Pool) Get() interface{} {
	if getCur() == nil {
		if DirectPoolRecycle {
			if l := directPools[p]; len(l) > 0 {
				x := l[len(l)-1]
				directPools[p] = l[:len(l)-1]
				return x
			}
		}
		if p.New != nil {
			return p.New()
		}
		return nil
	}
	v := rpc(req{k: kPoolGet, p: unsafe.Pointer(p)})
	if v.x != nil {
		raceAcquire(poolRaceAddr(v.x))
		return v.x
	}
	if p.New != nil {
		return p.New()
	}
	return nil
}

// ---------------------------------------------------------------- WaitGroup

type WaitGroup struct {
	_    noCopy
	real realsync.WaitGroup
	sem  uint64
}

func (wg *WaitGroup) Add(delta int) {
	if getCur() == nil {
		wg.real.Add(delta)
		return
	}
	if delta < 0 {
		raceReleaseMerge(unsafe.Pointer(&wg.sem))
	}
	rpc(req{k: kWGAdd, p: unsafe.Pointer(wg), n: delta})
	if delta < 0 {
		postYield()
	}
}

func (wg *WaitGroup) Done() { wg.Add(-1) }

func (wg *WaitGroup) Wait() {
	if getCur() == nil {
		wg.real.Wait()
		return
	}
	rpc(req{k: kWGWait, p: unsafe.Pointer(wg)})
	raceAcquire(unsafe.Pointer(&wg.sem))
}

// ---------------------------------------------------------------- Cond

type Cond struct {
	_   noCopy
	L   Locker
	sem uint64
}

func NewCond(l Locker) *Cond { return &Cond{L: l} }

func (c *Cond) Wait() {
	if getCur() == nil {
		panic("simsync: Cond.Wait in direct mode would block forever")
	}
	c.L.Unlock()
	rpc(req{k: kCondWait, p: unsafe.Pointer(c)})
	raceAcquire(unsafe.Pointer(&c.sem))
	c.L.Lock()
}

func (c *Cond) Signal() {
	if getCur() == nil {
		return
	}
	raceReleaseMerge(unsafe.Pointer(&c.sem))
	rpc(req{k: kCondSignal, p: unsafe.Pointer(c)})
}

func (c *Cond) Broadcast() {
	if getCur() == nil {
		return
	}
	raceReleaseMerge(unsafe.Pointer(&c.sem))
	rpc(req{k: kCondBroadcast, p: unsafe.Pointer(c)})
}

// ---------------------------------------------------------------- Map

// Map is the real sync.Map preceded by a scheduling point per operation: it
// never blocks, and its own (real) synchronisation stays visible to the race
// detector exactly as in production.
type Map struct {
	real realsync.Map
}

func (m *Map) yield() {
	if getCur() != nil {
		rpc(req{k: kMapOp, p: unsafe.Pointer(m)})
	}
}

func (m *Map) Load(key interface{}) (value interface{}, ok bool) { m.yield(); return m.real.Load(key) }
func (m *Map) Store(key, value interface{})                      { m.yield(); m.real.Store(key, value) }
func (m *Map) LoadOrStore(key, value interface{}) (interface{}, bool) {
	m.yield()
	return m.real.LoadOrStore(key, value)
}
func (m *Map) LoadAndDelete(key interface{}) (interface{}, bool) {
	m.yield()
	return m.real.LoadAndDelete(key)
}
func (m *Map) Delete(key interface{}) { m.yield(); m.real.Delete(key) }
func (m *Map) Swap(key, value interface{}) (interface{}, bool) {
	m.yield()
	return m.real.Swap(key, value)
}
func (m *Map) CompareAndSwap(key, old, new interface{}) bool {
	m.yield()
	return m.real.CompareAndSwap(key, old, new)
}
func (m *Map) CompareAndDelete(key, old interface{}) bool {
	m.yield()
	return m.real.CompareAndDelete(key, old)
}
func (m *Map) Range(f func(key, value interface{}) bool) { m.yield(); m.real.Range(f) }

// ---------------------------------------------------------------- simulator services for harness code and inserted yields

// SimPoint is inserted between statements of selected files by the scratch
// rewrite; it is a scheduling point only when the run enables P-yields.
func SimPoint(site int) {
	t := getCur()
	if t == nil || !t.sim.cfg.PYields {
		return
	}
	rpc(req{k: kYield, n: site})
}

// Now, Since, Until and Sleep stand in for the functions of package time with these names (the scratch rewrite
// redirects the library's calls): inside a simulation they read and wait on the scheduler's clock; outside one (package
// initialisation, the oracle process) they read a process-wide counter that starts at the same epoch. The readings carry
// no monotonic part and are in the local time zone, as time.Now's are. The real clock is never consulted. A process started with
// VERIF_CLOCK_UNIX=<seconds> starts its clock there (the command-line tool built for invocations "at" a simulated time).
func Now() time.Time {
	if getCur() == nil {
		return time.Unix(0, procClockTick())
	}
	return time.Unix(0, rpc(req{k: kNow}).n64)
}

func Since(t time.Time) time.Duration { return Now().Sub(t) }

func Until(t time.Time) time.Duration { return t.Sub(Now()) }

func Sleep(d time.Duration) {
	if getCur() == nil {
		if d > 0 {
			procClockStore(procClockLoad() + int64(d))
		}
		return
	}
	rpc(req{k: kSleep, n64: int64(d)})
}

// Go stands in for a go statement of the library under test (the scratch rewrite turns `go f(x)` into it, with f and x
// evaluated at the statement as the language prescribes). Inside a simulation the new goroutine becomes a task of the
// scheduler: it runs only when chosen, its synchronisation goes through the same shim, and the race detector is told
// exactly the edge a go statement gives (the statement happens before the goroutine's first instruction). Outside a
// simulation (package initialisation, the oracle process) it is a plain goroutine on the real primitives.
func Go(fn func()) {
	if getCur() == nil {
		go fn()
		return
	}
	tok := new(uint64)
	raceRelease(unsafe.Pointer(tok))
	rpc(req{k: kSpawn, x: func() {
		raceAcquire(unsafe.Pointer(tok))
		fn()
	}})
}

// Spawned reports whether the caller is a goroutine the library started (directly or indirectly), as opposed to a harness task.
func Spawned() bool {
	t := getCur()
	return t != nil && t.spawned
}

// Timer stands in for *time.Timer as returned by time.AfterFunc: a task that sleeps on the simulated clock and then calls f,
// unless it was stopped. Channel timers (time.NewTimer, time.After, tickers) have no counterpart: the rewrite refuses them.
type Timer struct {
	C     <-chan time.Time // always nil, as for an AfterFunc timer
	f     func()
	state int32 // generation*2 + (1 if the current generation is no longer pending)
}

func AfterFunc(d time.Duration, f func()) *Timer {
	t := &Timer{f: f}
	t.arm(d, 0)
	return t
}

func (t *Timer) arm(d time.Duration, gen int32) {
	Go(func() {
		Sleep(d)
		if atomic.CompareAndSwapInt32(&t.state, gen*2, gen*2+1) {
			t.f()
		}
	})
}

// Stop prevents the timer from firing; it reports whether the call stopped it (false: already fired or stopped).
func (t *Timer) Stop() bool {
	Yield()
	for {
		s := atomic.LoadInt32(&t.state)
		if s&1 == 1 {
			return false
		}
		if atomic.CompareAndSwapInt32(&t.state, s, s+1) {
			return true
		}
	}
}

// Reset re-arms the timer to fire after d; it reports whether the timer had been pending.
func (t *Timer) Reset(d time.Duration) bool {
	Yield()
	for {
		s := atomic.LoadInt32(&t.state)
		next := (s/2 + 1) * 2
		if atomic.CompareAndSwapInt32(&t.state, s, next) {
			t.arm(d, next/2)
			return s&1 == 0
		}
	}
}

// Yield is an unconditional scheduling point.
func Yield() {
	if getCur() != nil {
		rpc(req{k: kYield})
	}
}

// Stamp returns the next global event sequence number (and is a scheduling point).
func Stamp() uint64 {
	if getCur() == nil {
		return 0
	}
	return rpc(req{k: kStamp}).seq
}

// LastAcquire returns the sequence number of the calling task's most recent lock grant.
func LastAcquire() uint64 {
	if t := getCur(); t != nil {
		return t.lastAcq
	}
	return 0
}

// Choose draws from the run's chooser (for faults injected by harness-owned seams).
func Choose(n int, label string) int {
	if getCur() == nil {
		panic("simsync: Choose outside a task")
	}
	if n <= 1 {
		return 0
	}
	return rpc(req{k: kChoose, n: n, label: label}).n
}

// Note counts a probe in the run's statistics.
func Note(label string) {
	if getCur() != nil {
		rpc(req{k: kNote, label: label})
	}
}

// IsAbort reports whether a recovered panic value is the simulator's abort
// signal (harness code that recovers panics must re-panic it).
func IsAbort(r interface{}) bool { return r == interface{}(abortSentinel) }
