// Package simsync is a drop-in replacement for the parts of package sync that
// the code under test uses, backed by a cooperative, seeded scheduler.
//
// Exactly one goroutine (one task, or the scheduler) is runnable at any time.
// Every shim operation of a task is an RPC to the scheduler goroutine, which
// owns all simulator state and decides, from a Chooser only, which enabled
// task proceeds. Outside a simulation ("direct mode", no current task) the
// shim types behave like trivially correct sequential versions.
package simsync

import (
	"fmt"
	"os"
	"runtime/debug"
	"sort"
	"strconv"
	"strings"
	"sync/atomic"
	"time"
	"unsafe"
)

// Chooser is the only source of nondeterminism of a simulation.
// Intn returns a value in [0,n). 0 is always the least surprising option.
type Chooser interface {
	Intn(n int, label string) int
}

type kind uint8

const (
	kStart kind = iota
	kExit
	kYield
	kStamp
	kChoose
	kLock
	kUnlock
	kRWCommit
	kRWAcquire
	kRWUnlock
	kRLock
	kRUnlock
	kPoolGet
	kPoolPut
	kOnceEnter
	kOnceDone
	kWGAdd
	kWGWait
	kCondWait
	kCondSignal
	kCondBroadcast
	kMapOp
	kNote
	kTryLock
	kTryRLock
	kNow
	kSleep
	kSpawn
	nKinds
)

var kindNames = [...]string{"start", "exit", "yield", "stamp", "choose", "lock", "unlock", "rwcommit", "rwacquire", "rwunlock",
	"rlock", "runlock", "poolget", "poolput", "onceenter", "oncedone", "wgadd", "wgwait", "condwait", "condsignal", "condbroadcast", "mapop", "note", "trylock", "tryrlock", "now", "sleep", "spawn"}

func (k kind) String() string { return kindNames[k] }

type req struct {
	n64   int64
	t     *task
	k     kind
	p     unsafe.Pointer
	p2    unsafe.Pointer
	x     interface{}
	n     int
	label string
}

type resp struct {
	x     interface{}
	n     int
	n64   int64 // clock readings (plain int is 32 bits wide on the 386 worker)
	seq   uint64
	abort bool
	fail  string // the shim operation must panic with this message (e.g. unlock of unlocked mutex)
}

type task struct {
	id      int
	name    string
	sim     *Sim
	fn      func()
	wake    chan resp
	pending req
	hasReq  bool
	done    bool
	started bool
	aborted bool // task-owned
	join    uint64
	// task-owned, read by the harness after join
	panicVal string
	panicked bool
	lastAcq  uint64 // task-owned: seq of the last lock grant
	prio     int
	condGen  int    // scheduler-owned: set when a cond wait has been signalled
	wakeAt   int64  // scheduler-owned: simulated time at which a sleeping task may continue
	spawned  bool   // started by the library under test through a go statement (simshim.Go), not by the harness
	startSem uint64 // race-detector address: the go statement happens before the first statement of the new goroutine
}

// Pool behaviour for one simulation.
type PoolMode int

const (
	PoolFresh  PoolMode = iota // Get always misses (objects are dropped on Put)
	PoolLIFO                   // most recently put first
	PoolFIFO                   // oldest first
	PoolRandom                 // any pooled object
)

// ClockMode: how the simulated clock, the only clock the rewritten library can read, moves.
type ClockMode int

const (
	ClockFine   ClockMode = iota // one microsecond per scheduler step, readings at full resolution
	ClockCoarse                  // same pace, readings truncated to 16 ms ticks (consecutive readings are usually EQUAL)
	ClockJumpy                   // at a reading the clock may leap forward by up to two hours; sleeps may overshoot
	ClockFrozen                  // moves only when every live task sleeps (then to the earliest wake-up)
)

// clockEpoch: 2026-03-01 12:00:00 UTC. Every OS process starts its simulated clock here; the clock never reads the real one.
const clockEpoch int64 = 1772366400 * 1e9

// procClock is the process-wide simulated time in ns (monotone: a run starts where the previous one ended).
var procClock = clockEpoch

type Policy int

const (
	PolicyUniform Policy = iota
	PolicySticky
	PolicyPCT
)

// Config of one simulation; everything in it comes from the run's plan.
type Config struct {
	Policy            Policy
	SwitchPermille    int  // sticky: probability (per mille) of leaving the running task at a scheduling point
	PCTDepth          int  // number of priority change points
	PCTSteps          int  // horizon within which change points are drawn
	StallTask         int  // -1: none
	StallFrom         int  // step at which the stall begins
	StallLen          int  // number of steps
	PYields           bool // honour SimPoint()
	PostYields        bool // an extra scheduling point right AFTER every release-type operation (Pool.Put, Unlock, RUnlock, WaitGroup.Done, Once done): another task can act on what was released before the releasing task executes its next statement
	StepCap           int
	ClockLeapPermille int       // ClockJumpy: probability (per mille) that a reading leaps; 0 = 300
	Clock             ClockMode // behaviour of the simulated clock (only code that reads a clock or sleeps can tell)
	Pool              PoolMode
	GetFreshPermille  int // F1
	GetAnyPermille    int // F2
	PutDropPermille   int // F3
	FlushPermille     int // F4 (per pool operation)
	Trace             bool
}

// Stats are counted by the scheduler during one run.
type Stats struct {
	Steps         int
	Switches      int
	Kinds         [nKinds]int
	LockWaits     int // a task was disabled on a held lock when another was chosen
	PoolGetHit    int
	PoolGetNew    int
	PoolCross     int // Get returned an object put by another task
	PoolDouble    int // the same object was in a pool twice
	FaultGetFresh int
	FaultGetAny   int
	FaultPutDrop  int
	FaultFlush    int
	StallSteps    int // steps during which the stalled task was enabled but kept out
	StallHolding  int // stall began while the victim held a lock
	Preempt       int // a switch away from a task that was still enabled
	PYieldSwitch  int // a switch at a SimPoint
	ClockReads    int
	ClockTies     int // a reading equal to the previous reading
	ClockJumps    int
	Sleeps        int
	SimNanos      int64 // simulated time that passed during the run
	SleepSkips    int   // the clock was moved to the earliest wake-up because every live task slept
	Spawns        int   // goroutines the library started (go statements, AfterFunc timers), each a task of the scheduler
	SpawnLeaps    int   // the clock was moved to a sleeping task's wake-up although other tasks were runnable (they were 'slow')
	DrainSteps    int   // steps taken by library goroutines after the last harness task had finished
	DaemonsLeft   int   // library goroutines still parked (sleeping, waiting) when the run ended; they are unwound
	Notes         map[string]int
}

type Result struct {
	Stats
	Deadlock    bool
	DeadlockMsg string
	StepCapHit  bool
	Panics      []string // "task: message", in task id order
	LogHash     uint64   // hash of the full event log
	SwitchHash  uint64   // hash of the sequence of context switches (task ids)
	Trace       []string
}

type lockState struct {
	idx      int
	held     bool // mutex held / rw writer holds
	holder   int
	commit   bool // rw: a writer has announced itself (blocks new readers)
	commitBy int
	readers  int
	rholders map[int]int
}

type poolItem struct {
	x  interface{}
	by int
}

type poolState struct {
	idx   int
	items []poolItem
}

type onceState struct {
	running bool
	by      int
	done    bool
}

type wgState struct{ n int }

type condWaiter struct {
	t *task
}

type condState struct {
	waiters []*task
}

// Sim is one simulation run.
type Sim struct {
	ch      Chooser
	cfg     Config
	tasks   []*task
	reqCh   chan req
	seq     uint64
	locks   map[unsafe.Pointer]*lockState
	pools   map[unsafe.Pointer]*poolState
	onces   map[unsafe.Pointer]*onceState
	wgs     map[unsafe.Pointer]*wgState
	conds   map[unsafe.Pointer]*condState
	objs    int
	res     Result
	last    *task
	pctAt   []int
	running bool
	now     int64 // simulated time, ns
	lastRd  int64
	start   int64
	live    int
	roots   int // harness tasks not finished yet
	launch  chan *task
}

var (
	curTask *task
	curSim  *Sim
	// progress is bumped at every step; a watchdog goroutine turns a stuck
	// simulation (a task blocked outside the seams) into exit status 2.
	progress int64
)

//go:norace
func getCur() *task { return curTask }

//go:norace
func setCur(t *task) { curTask = t }

//go:norace
func getSim() *Sim { return curSim }

//go:norace
func setSim(s *Sim) { curSim = s }

// InSim reports whether the caller runs as a task of a simulation.
func InSim() bool { return getCur() != nil }

// TaskID returns the id of the calling task, or -1 in direct mode.
func TaskID() int {
	if t := getCur(); t != nil {
		return t.id
	}
	return -1
}

func New(ch Chooser, cfg Config) *Sim {
	if cfg.StepCap == 0 {
		cfg.StepCap = 200000
	}
	s := &Sim{ch: ch, cfg: cfg, reqCh: make(chan req),
		locks: map[unsafe.Pointer]*lockState{}, pools: map[unsafe.Pointer]*poolState{},
		onces: map[unsafe.Pointer]*onceState{}, wgs: map[unsafe.Pointer]*wgState{}, conds: map[unsafe.Pointer]*condState{}}
	s.res.Notes = map[string]int{}
	s.now = procClockLoad()
	s.start = s.now
	s.res.LogHash = 1469598103934665603
	s.res.SwitchHash = 1469598103934665603
	return s
}

// Go registers a task. All tasks must be registered before Run.
func (s *Sim) Go(name string, fn func()) int {
	t := &task{id: len(s.tasks), name: name, sim: s, fn: fn, wake: make(chan resp)}
	s.tasks = append(s.tasks, t)
	return t.id
}

var abortSentinel = new(int)

func (t *task) main() {
	defer func() {
		if r := recover(); r != nil {
			if r != interface{}(abortSentinel) {
				t.panicked = true
				t.panicVal = fmt.Sprint(r)
				if t.sim.cfg.Trace {
					t.panicVal += "\n" + string(debug.Stack())
				}
			}
		}
		raceReleaseMerge(unsafe.Pointer(&t.join))
		raceDisable()
		t.sim.reqCh <- req{t: t, k: kExit}
		raceEnable()
	}()
	// wait for the first scheduling decision
	raceDisable()
	t.sim.reqCh <- req{t: t, k: kStart}
	v := <-t.wake
	raceEnable()
	if v.abort {
		t.aborted = true
		return
	}
	t.fn()
}

// newSpawned makes the task of a goroutine the library starts. The launcher goroutine and the new goroutine read these
// fields without any edge from the scheduler (an edge would order the new goroutine after every task that has already
// finished and could hide a race of the library), so the writes are kept out of the race detector's sight.
//
//go:norace
func newSpawned(s *Sim, parent *task, fn func()) *task {
	return &task{id: len(s.tasks), name: fmt.Sprintf("%s.go%d", strings.SplitN(parent.name, ".go", 2)[0], len(s.tasks)), sim: s, fn: fn, wake: make(chan resp), spawned: true}
}

// rpc is executed on a task goroutine.
func rpc(r req) resp {
	t := getCur()
	if t == nil {
		panic("simsync: rpc outside a task")
	}
	if t.aborted {
		return resp{abort: true}
	}
	r.t = t
	raceDisable()
	t.sim.reqCh <- r
	v := <-t.wake
	raceEnable()
	if v.abort {
		t.aborted = true
		panic(abortSentinel)
	}
	if v.fail != "" {
		panic(v.fail)
	}
	return v
}

func (s *Sim) hash(h *uint64, v uint64) {
	x := *h
	for i := 0; i < 8; i++ {
		x ^= v & 0xff
		x *= 1099511628211
		v >>= 8
	}
	*h = x
}

func (s *Sim) lock(p unsafe.Pointer) *lockState {
	l := s.locks[p]
	if l == nil {
		s.objs++
		l = &lockState{idx: s.objs, rholders: map[int]int{}}
		s.locks[p] = l
	}
	return l
}

func (s *Sim) pool(p unsafe.Pointer) *poolState {
	l := s.pools[p]
	if l == nil {
		s.objs++
		l = &poolState{idx: s.objs}
		s.pools[p] = l
	}
	return l
}

func (s *Sim) enabled(t *task) bool {
	if t.done || !t.hasReq {
		return false
	}
	r := &t.pending
	switch r.k {
	case kLock:
		return !s.lock(r.p).held
	case kRWCommit:
		l := s.lock(r.p)
		return !l.held && !l.commit
	case kRWAcquire:
		return s.lock(r.p).readers == 0
	case kRLock:
		l := s.lock(r.p)
		return !l.held && !l.commit
	case kOnceEnter:
		o := s.onces[r.p]
		return o == nil || !o.running
	case kWGWait:
		w := s.wgs[r.p]
		return w == nil || w.n == 0
	case kCondWait:
		return t.condGen > 0
	case kSleep:
		return s.now >= t.wakeAt
	}
	return true
}

func coin(ch Chooser, permille int, label string) bool {
	if permille <= 0 {
		return false
	}
	return ch.Intn(1000, label) >= 1000-permille
}

// apply performs the pending request of t (which is enabled) and returns the response.
func (s *Sim) apply(t *task) resp {
	r := t.pending
	s.seq++
	out := resp{seq: s.seq}
	obj := 0
	switch r.k {
	case kStart, kYield, kStamp, kMapOp:
	case kNote:
		s.res.Notes[r.label]++
	case kNow:
		if s.cfg.Clock == ClockJumpy && coin(s.ch, s.leapPermille(), "clockjump") {
			s.now += int64(1+s.ch.Intn(7200, "clockleap")) * 1e9
			s.res.ClockJumps++
		}
		rd := s.now
		if s.cfg.Clock == ClockCoarse {
			rd -= rd % 16e6
		}
		s.res.ClockReads++
		if rd == s.lastRd {
			s.res.ClockTies++
		}
		s.lastRd = rd
		out.n64 = rd
	case kSleep:
		// the wake-up time was fixed when the request arrived; nothing to do at the grant
	case kSpawn:
		// a go statement of the library under test: the new goroutine is one more task of this scheduler. It is started by
		// the launcher goroutine (which has acquired nothing from any task), parks at its first scheduling point like
		// every task, and runs only when chosen.
		nt := newSpawned(s, t, r.x.(func()))
		if s.cfg.Policy == PolicyPCT {
			nt.prio = 1 + s.ch.Intn(s.cfg.PCTDepth+1+len(s.tasks), "pctspawn")
		}
		s.tasks = append(s.tasks, nt)
		s.live++
		s.res.Spawns++
		obj = nt.id
		raceDisable()
		s.launch <- nt
		q := <-s.reqCh
		raceEnable()
		if q.t != nt || q.k != kStart {
			fmt.Fprintf(os.Stderr, "simsync: unexpected request while a spawned task was starting (a goroutine outside the simulator?)\n")
			os.Exit(2)
		}
		nt.pending, nt.hasReq = q, true
	case kChoose:
		out.n = s.ch.Intn(r.n, r.label)
		obj = out.n
	case kLock:
		l := s.lock(r.p)
		l.held, l.holder = true, t.id
		obj = l.idx
	case kTryLock:
		// succeeds iff a Lock would be granted at this instant (a Mutex, or an RWMutex with no reader, writer or pending writer)
		l := s.lock(r.p)
		obj = l.idx
		if !l.held && !l.commit && l.readers == 0 {
			l.held, l.holder = true, t.id
			out.n = 1
		}
	case kTryRLock:
		l := s.lock(r.p)
		obj = l.idx
		if !l.held && !l.commit {
			l.readers++
			l.rholders[t.id]++
			out.n = 1
		}
	case kUnlock:
		l := s.lock(r.p)
		obj = l.idx
		if !l.held {
			out.fail = "sync: unlock of unlocked mutex"
			break
		}
		l.held = false
	case kRWCommit:
		l := s.lock(r.p)
		l.commit, l.commitBy = true, t.id
		obj = l.idx
	case kRWAcquire:
		l := s.lock(r.p)
		l.held, l.holder = true, t.id
		obj = l.idx
	case kRWUnlock:
		l := s.lock(r.p)
		obj = l.idx
		if !l.held {
			out.fail = "sync: Unlock of unlocked RWMutex"
			break
		}
		l.held, l.commit = false, false
	case kRLock:
		l := s.lock(r.p)
		l.readers++
		l.rholders[t.id]++
		obj = l.idx
	case kRUnlock:
		l := s.lock(r.p)
		obj = l.idx
		if l.readers == 0 {
			out.fail = "sync: RUnlock of unlocked RWMutex"
			break
		}
		l.readers--
		if l.rholders[t.id] > 0 {
			l.rholders[t.id]--
		}
	case kPoolGet:
		p := s.pool(r.p)
		obj = p.idx
		s.maybeFlush()
		if len(p.items) == 0 || s.cfg.Pool == PoolFresh {
			s.res.PoolGetNew++
			break
		}
		if coin(s.ch, s.cfg.GetFreshPermille, "F1") {
			s.res.FaultGetFresh++
			s.res.PoolGetNew++
			break
		}
		i := len(p.items) - 1
		switch s.cfg.Pool {
		case PoolFIFO:
			i = 0
		case PoolRandom:
			i = len(p.items) - 1 - s.ch.Intn(len(p.items), "poolpick")
		}
		if s.cfg.Pool != PoolRandom && len(p.items) > 1 && coin(s.ch, s.cfg.GetAnyPermille, "F2") {
			i = s.ch.Intn(len(p.items), "F2pick")
			s.res.FaultGetAny++
		}
		it := p.items[i]
		p.items = append(p.items[:i], p.items[i+1:]...)
		out.x = it.x
		s.res.PoolGetHit++
		if it.by != t.id {
			s.res.PoolCross++
		}
	case kPoolPut:
		p := s.pool(r.p)
		obj = p.idx
		s.maybeFlush()
		if s.cfg.Pool == PoolFresh {
			break
		}
		if coin(s.ch, s.cfg.PutDropPermille, "F3") {
			s.res.FaultPutDrop++
			break
		}
		for _, it := range p.items {
			if sameObject(it.x, r.x) {
				s.res.PoolDouble++
				break
			}
		}
		p.items = append(p.items, poolItem{r.x, t.id})
	case kOnceEnter:
		o := s.onces[r.p]
		if o == nil {
			o = &onceState{}
			s.onces[r.p] = o
		}
		if o.done {
			out.n = 0
		} else {
			o.running, o.by = true, t.id
			out.n = 1
		}
	case kOnceDone:
		o := s.onces[r.p]
		o.running, o.done = false, true
	case kWGAdd:
		w := s.wgs[r.p]
		if w == nil {
			w = &wgState{}
			s.wgs[r.p] = w
		}
		w.n += r.n
		if w.n < 0 {
			out.fail = "sync: negative WaitGroup counter"
		}
	case kWGWait:
	case kCondWait:
		t.condGen = 0
	case kCondSignal, kCondBroadcast:
		c := s.conds[r.p]
		if c != nil && len(c.waiters) > 0 {
			if r.k == kCondSignal {
				i := 0
				if len(c.waiters) > 1 {
					i = s.ch.Intn(len(c.waiters), "condpick")
				}
				c.waiters[i].condGen = 1
				c.waiters = append(c.waiters[:i], c.waiters[i+1:]...)
			} else {
				for _, w := range c.waiters {
					w.condGen = 1
				}
				c.waiters = nil
			}
		}
	}
	s.res.Kinds[r.k]++
	s.hash(&s.res.LogHash, uint64(t.id)<<40|uint64(r.k)<<32|uint64(uint32(obj)))
	if s.cfg.Trace {
		s.res.Trace = append(s.res.Trace, fmt.Sprintf("%d t%d %s #%d", s.seq, t.id, r.k, obj))
	}
	return out
}

// sameObject reports whether two values put into a pool are the same object (the second word of the interface value is
// compared: the pointer itself for pointer-shaped values, the address of the boxed copy otherwise). It never compares
// the values themselves: a pool may hold slices or other uncomparable values.
func sameObject(a, b interface{}) bool {
	pa := (*[2]unsafe.Pointer)(unsafe.Pointer(&a))
	pb := (*[2]unsafe.Pointer)(unsafe.Pointer(&b))
	return pa[0] == pb[0] && pa[1] == pb[1]
}

func (s *Sim) maybeFlush() {
	if coin(s.ch, s.cfg.FlushPermille, "F4") {
		n := 0
		for _, p := range s.pools {
			n += len(p.items)
			p.items = nil
		}
		if n > 0 {
			s.res.FaultFlush++
		}
	}
}

// registerWait is called when a cond-wait request arrives (the waiter is
// registered at request time: it has already released the lock).
func (s *Sim) registerCondWait(t *task, p unsafe.Pointer) {
	c := s.conds[p]
	if c == nil {
		c = &condState{}
		s.conds[p] = c
	}
	c.waiters = append(c.waiters, t)
}

func (s *Sim) pick(en []*task) *task {
	if len(en) == 1 {
		return en[0]
	}
	// the running task first, then the others by id
	curIdx := -1
	for i, t := range en {
		if t == s.last {
			curIdx = i
		}
	}
	if curIdx > 0 {
		c := en[curIdx]
		copy(en[1:curIdx+1], en[:curIdx])
		en[0] = c
	}
	// stall: keep the victim out while others can run
	if s.cfg.StallTask >= 0 && s.res.Steps >= s.cfg.StallFrom && s.res.Steps < s.cfg.StallFrom+s.cfg.StallLen {
		for i, t := range en {
			if t.id == s.cfg.StallTask {
				en = append(en[:i:i], en[i+1:]...)
				s.res.StallSteps++
				break
			}
		}
		if len(en) == 1 {
			return en[0]
		}
		curIdx = -1
		if en[0] == s.last {
			curIdx = 0
		}
	}
	switch s.cfg.Policy {
	case PolicySticky:
		if curIdx >= 0 {
			if s.ch.Intn(1000, "stay") < 1000-s.cfg.SwitchPermille {
				return en[0]
			}
			return en[1+s.ch.Intn(len(en)-1, "switch")]
		}
		return en[s.ch.Intn(len(en), "sched")]
	case PolicyPCT:
		best := en[0]
		for _, t := range en[1:] {
			if t.prio > best.prio {
				best = t
			}
		}
		return best
	}
	return en[s.ch.Intn(len(en), "sched")]
}

// Run executes the simulation to completion (or deadlock / step cap).
func (s *Sim) Run() *Result {
	if getSim() != nil {
		panic("simsync: nested simulation")
	}
	setSim(s)
	defer setSim(nil)
	defer setCur(nil)
	n := len(s.tasks)
	if s.cfg.Policy == PolicyPCT {
		// random priorities n+d .. d+1; change points lower a task to d-i
		perm := make([]int, n)
		for i := range perm {
			perm[i] = i
		}
		for i := n - 1; i > 0; i-- {
			j := s.ch.Intn(i+1, "pctperm")
			perm[i], perm[j] = perm[j], perm[i]
		}
		for i, t := range s.tasks {
			t.prio = s.cfg.PCTDepth + 1 + perm[i]
		}
		h := s.cfg.PCTSteps
		if h < 1 {
			h = 1
		}
		for i := 0; i < s.cfg.PCTDepth; i++ {
			s.pctAt = append(s.pctAt, s.ch.Intn(h, "pctat"))
		}
		sort.Ints(s.pctAt)
	}
	s.launch = make(chan *task)
	go func(c chan *task) {
		for {
			raceDisable()
			nt, ok := <-c
			raceEnable()
			if !ok {
				return
			}
			go nt.main()
		}
	}(s.launch)
	defer func() {
		raceDisable()
		close(s.launch)
		raceEnable()
	}()
	for _, t := range s.tasks {
		go t.main()
	}
	for i := 0; i < n; i++ {
		raceDisable()
		r := <-s.reqCh
		raceEnable()
		r.t.pending, r.t.hasReq = r, true
	}
	en := make([]*task, 0, n)
	s.live, s.roots = n, n
	drainSkips := 0
	for s.live > 0 {
		atomic.AddInt64(&progress, 1)
		en = en[:0]
		for _, t := range s.tasks {
			if s.enabled(t) {
				en = append(en, t)
			}
		}
		if len(en) == 0 {
			// everybody who is alive waits; if somebody merely sleeps, time passes until the earliest wake-up
			var wake int64 = -1
			for _, t := range s.tasks {
				if !t.done && t.hasReq && t.pending.k == kSleep && (wake < 0 || t.wakeAt < wake) {
					wake = t.wakeAt
				}
			}
			if wake >= 0 && s.roots == 0 {
				// only goroutines of the library are left, and they sleep (a janitor, a pending timer): a few more wake-ups
				// are granted so that deferred work that was due shortly after the last call still happens, then the run ends
				if drainSkips++; drainSkips > 4 {
					s.res.DaemonsLeft = s.live
					s.abortAll(&s.live)
					break
				}
			}
			if wake >= 0 {
				s.now = wake
				s.res.SleepSkips++
				continue
			}
			if s.roots == 0 {
				// every harness task has finished; what is left are goroutines of the library that wait for work
				// that will never come: daemons, not a deadlock
				s.res.DaemonsLeft = s.live
				s.abortAll(&s.live)
				break
			}
			s.res.Deadlock = true
			s.res.DeadlockMsg = s.describeBlocked()
			s.abortAll(&s.live)
			break
		}
		if s.cfg.Clock != ClockFrozen {
			// sleeping tasks whose time has not come: the runnable ones may be slow (descheduled, on a loaded machine) for
			// that long, so now and then the clock moves to the earliest wake-up although others could run
			var wake int64 = -1
			for _, t := range s.tasks {
				if !t.done && t.hasReq && t.pending.k == kSleep && t.wakeAt > s.now && (wake < 0 || t.wakeAt < wake) {
					wake = t.wakeAt
				}
			}
			if wake >= 0 && coin(s.ch, 60, "sleepleap") {
				s.now = wake
				s.res.SpawnLeaps++
				continue
			}
		}
		if s.res.Steps >= s.cfg.StepCap {
			s.res.StepCapHit = true
			s.abortAll(&s.live)
			break
		}
		if s.cfg.StallTask >= 0 && s.res.Steps == s.cfg.StallFrom {
			for _, l := range s.locks {
				if (l.held && l.holder == s.cfg.StallTask) || l.rholders[s.cfg.StallTask] > 0 {
					s.res.StallHolding++
					break
				}
			}
		}
		nEn := len(en)
		lastEnabled := false
		for _, t := range en {
			if t == s.last {
				lastEnabled = true
			}
		}
		t := s.pick(en)
		if s.roots == 0 {
			s.res.DrainSteps++
		}
		if nEn < s.live {
			// someone is alive but not enabled: count lock waits
			for _, o := range s.tasks {
				if !o.done && o.hasReq && o != t && !s.enabled(o) {
					switch o.pending.k {
					case kLock, kRWCommit, kRWAcquire, kRLock:
						s.res.LockWaits++
					}
				}
			}
		}
		if t != s.last {
			s.res.Switches++
			if lastEnabled {
				s.res.Preempt++
				if s.last != nil && s.last.pending.k == kYield {
					s.res.PYieldSwitch++
				}
			}
			s.hash(&s.res.SwitchHash, uint64(t.id)<<8|uint64(t.pending.k))
		}
		s.last = t
		out := s.apply(t)
		t.hasReq = false
		s.res.Steps++
		if s.cfg.Clock != ClockFrozen {
			s.now += 1000
		}
		if s.cfg.Policy == PolicyPCT {
			for i, at := range s.pctAt {
				if at == s.res.Steps {
					t.prio = s.cfg.PCTDepth - i
				}
			}
		}
		setCur(t)
		raceDisable()
		t.wake <- out
		r := <-s.reqCh
		raceEnable()
		setCur(nil)
		if r.t != t {
			fmt.Fprintf(os.Stderr, "simsync: request from task %d while task %d was running (a goroutine outside the simulator?)\n", r.t.id, t.id)
			os.Exit(2)
		}
		if r.k == kExit {
			raceAcquire(unsafe.Pointer(&t.join))
			t.done = true
			s.live--
			if !t.spawned {
				s.roots--
			}
			continue
		}
		if r.k == kCondWait {
			s.registerCondWait(t, r.p)
		}
		if r.k == kSleep {
			d := r.n64
			if d < 0 {
				d = 0
			}
			if s.cfg.Clock == ClockJumpy && coin(s.ch, 200, "oversleep") {
				d += d/2 + int64(s.ch.Intn(1000, "oversleepms"))*1e6
			}
			t.wakeAt = s.now + d
			s.res.Sleeps++
		}
		t.pending, t.hasReq = r, true
	}
	s.res.SimNanos = s.now - s.start
	procClockStore(s.now)
	for _, t := range s.tasks {
		if t.panicked {
			s.res.Panics = append(s.res.Panics, fmt.Sprintf("%s: %s", t.name, t.panicVal))
		}
	}
	return &s.res
}

func (s *Sim) describeBlocked() string {
	msg := ""
	for _, t := range s.tasks {
		if t.done {
			continue
		}
		who := ""
		if l, ok := s.locks[t.pending.p]; ok {
			if l.held {
				who = fmt.Sprintf(" held by t%d", l.holder)
			} else if l.commit {
				who = fmt.Sprintf(" writer t%d pending", l.commitBy)
			}
			if l.readers > 0 {
				who += fmt.Sprintf(" readers=%v", l.rholders)
			}
		}
		msg += fmt.Sprintf("t%d(%s) waits %s%s; ", t.id, t.name, t.pending.k, who)
	}
	return msg
}

// abortAll unblocks every parked task with an abort response; their shim
// operations turn into no-ops while they unwind.
func (s *Sim) abortAll(live *int) {
	for _, t := range s.tasks {
		if t.done {
			continue
		}
		setCur(t)
		raceDisable()
		t.wake <- resp{abort: true}
		for {
			r := <-s.reqCh
			if r.k == kExit {
				break
			}
		}
		raceEnable()
		setCur(nil)
		raceAcquire(unsafe.Pointer(&t.join))
		t.done = true
		*live--
	}
}

// StartWatchdog makes the process exit with status 2 if no simulation step
// happens for d while a simulation is running.
func StartWatchdog(d time.Duration, running func() bool) {
	go func() {
		last := atomic.LoadInt64(&progress)
		for {
			time.Sleep(d)
			cur := atomic.LoadInt64(&progress)
			if cur == last && running() {
				fmt.Fprintln(os.Stderr, "simsync: watchdog: no simulation step for", d, "- a task blocks outside the seams")
				os.Exit(2)
			}
			last = cur
		}
	}()
}

//go:norace
func procClockLoad() int64 { return procClock }

//go:norace
func procClockStore(v int64) {
	if v > procClock {
		procClock = v
	}
}

//go:norace
func procClockTick() int64 {
	procClock += 1000
	return procClock
}

func (s *Sim) leapPermille() int {
	if s.cfg.ClockLeapPermille > 0 {
		return s.cfg.ClockLeapPermille
	}
	return 300
}

func init() {
	if v := os.Getenv("VERIF_CLOCK_UNIX"); v != "" {
		if n, err := strconv.ParseInt(v, 10, 64); err == nil && n > 0 {
			procClock = n * 1e9
		}
	}
}
