module verifsim/simsync

go 1.21
