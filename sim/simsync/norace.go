//go:build !race

package simsync

import "unsafe"

// RaceEnabled reports whether the binary was built with -race.
const RaceEnabled = false

func raceDisable()                      {}
func raceEnable()                       {}
func raceAcquire(p unsafe.Pointer)      {}
func raceRelease(p unsafe.Pointer)      {}
func raceReleaseMerge(p unsafe.Pointer) {}
