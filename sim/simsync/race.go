//go:build race

package simsync

import (
	"runtime"
	"unsafe"
)

// RaceEnabled reports whether the binary was built with -race.
const RaceEnabled = true

func raceDisable()                      { runtime.RaceDisable() }
func raceEnable()                       { runtime.RaceEnable() }
func raceAcquire(p unsafe.Pointer)      { runtime.RaceAcquire(p) }
func raceRelease(p unsafe.Pointer)      { runtime.RaceRelease(p) }
func raceReleaseMerge(p unsafe.Pointer) { runtime.RaceReleaseMerge(p) }
