#!/usr/bin/env python3
"""record.py [<sensitivity-log>...]  - fold the tables printed by selftest/sensitivity.sh into
seeded/<id>/meta.json (detected_by) and selftest/RESULTS.md (one row per planted / seeded change and check).
Later logs override earlier ones for the same (change, check)."""
import json, os, re, sys

rows = {}  # (name, prop) -> (tests, exit, first)
order = []
paths = sys.argv[1:]
if not paths:  # no arguments: the logs named in selftest/logs/ORDER, oldest first (later logs override earlier ones)
    paths = ['/verif/selftest/logs/' + l.strip() for l in open('/verif/selftest/logs/ORDER') if l.strip()]
for path in paths:
    for line in open(path, errors='replace'):
        line = line.rstrip('\n')
        if line.startswith('planted ') or not line.strip() or line.startswith('WARNING'):
            continue
        m = re.match(r'^(\S+)\s+(C\d\d)\s+(\S+)\s+(\d+)\s*(.*)$', line)
        if not m:
            continue
        name, prop, tests, rc, first = m.groups()
        if not name.startswith(('seeded:', 'silent:')) and not os.path.exists('/verif/selftest/planted/%s.diff' % name):
            continue  # renamed or moved since that log was written
        if name.startswith('silent:') and not os.path.exists('/verif/selftest/silent/%s.diff' % name[7:]):
            continue  # reclassified or dropped since
        if name.startswith('seeded:'):
            mp = '/verif/seeded/%s/meta.json' % name[7:]
            if os.path.exists(mp) and prop not in (json.load(open(mp)).get('checks') or [prop]):
                continue  # a check the change was once tried against as a guess, no longer listed for it
        key = (name, prop)
        if key not in rows:
            order.append(key)
        rows[key] = (tests, int(rc), first.strip())

V = '/verif'
out = ['# Sensitivity results', '',
       'Each row: one deliberately broken variant of the repository (a hand-planted patch from selftest/planted,',
       'or a change written by an independent sub-agent, seeded/<id>) applied to a scratch copy of /repo, and the',
       'quick tier of one check run against that copy. exit 1 = the check reported a VIOLATION (wanted), 0 = it',
       'stayed silent, 2 = it could not decide (build trouble). Written by selftest/record.py from the logs of',
       'selftest/sensitivity.sh.', '',
       '| change | check | exit | first signature |', '|---|---|---|---|']
for (name, prop) in order:
    tests, rc, first = rows[(name, prop)]
    sig = ''
    m = re.search(r'signature=(\S+)', first)
    if m:
        sig = m.group(1)
    elif rc == 2:
        sig = first
    out.append('| %s | %s | %d | %s |' % (name, prop, rc, sig))
    if name.startswith('seeded:'):
        mp = os.path.join(V, 'seeded', name[7:], 'meta.json')
        if os.path.exists(mp):
            meta = json.load(open(mp))
            meta.setdefault('detected_by', {})[prop] = {'quick_exit': rc, 'signature': sig}
            meta['ran'] = 'selftest/sensitivity.sh seeded:%s  (scratch copy of /repo + patch.diff, VERIF_REPO pointed at it, quick tier of each check listed in "checks")' % name[7:]
            json.dump(meta, open(mp, 'w'), indent=1, ensure_ascii=False)
open(os.path.join(V, 'selftest', 'RESULTS.md'), 'w').write('\n'.join(out) + '\n')
# seeded table inside DESIGN.md (between the two markers)
tab = []
sd = os.path.join(V, 'seeded')
for k in sorted(os.listdir(sd)):
    mp = os.path.join(sd, k, 'meta.json')
    if not os.path.exists(mp):
        continue
    m = json.load(open(mp))
    det = ['%s (%s)' % (c, d['signature'].split('/', 1)[1] if '/' in d['signature'] else d['signature']) for c, d in sorted(m.get('detected_by', {}).items()) if d['quick_exit'] == 1]
    nd = [c for c, d in sorted(m.get('detected_by', {}).items()) if d['quick_exit'] != 1]
    cell = '; '.join(det) if det else '**not reported**'
    if nd:
        cell += ' — silent: ' + ', '.join(nd)
    tab.append('| %s (%s) | %s. Needs: %s | %s |' % (k, m['property'], m['what'].replace('|', '\\|'), m['needs_to_manifest'].replace('|', '\\|'), cell.replace('|', '\\|')))
dp = os.path.join(V, 'DESIGN.md')
d = open(dp).read()
b, e = '<!-- SEEDED_TABLE_BEGIN -->\n', '<!-- SEEDED_TABLE_END -->'
if b in d and e in d:
    d = d[:d.index(b) + len(b)] + '\n'.join(tab) + '\n' + d[d.index(e):]
    open(dp, 'w').write(d)
miss = [(n, p) for (n, p) in order if rows[(n, p)][1] != 1 and not n.startswith('silent:')]
loud = [(n, p) for (n, p) in order if rows[(n, p)][1] != 0 and n.startswith('silent:')]
print('behaviour-preserving edits that raised an alarm or trouble:', loud)
print('%d rows, %d not detected: %s' % (len(order), len(miss), miss))
