#!/bin/bash
# full.sh - the whole sensitivity regression: every seeded change against the checks named in its meta.json, every
# planted bug against its owning check, every behaviour-preserving edit against every check of its engine family.
# Writes selftest/logs/full-<n>.log (one table per group) and refreshes RESULTS.md / the table in DESIGN.md.
cd /verif || exit 2
stamp=$(date +%Y%m%d-%H%M)
L=selftest/logs/full-$stamp.log
seeded=(); for d in seeded/*/; do id=$(basename $d); [ -f $d/meta.json ] && seeded+=("seeded:$id"); done
planted=(); for f in selftest/planted/*.diff; do planted+=("$(basename $f .diff)"); done
silent=()
for f in selftest/silent/*.diff; do n=$(basename $f .diff)
  case "$n" in
    C07-*|C19-*) silent+=("silent:$n@C07,C19") ;;
    C09-*|C10-*) silent+=("silent:$n@C09,C10,C08,C11") ;;
    *)           silent+=("silent:$n@C08,C11,C12") ;;
  esac
done
./selftest/sensitivity.sh "${seeded[@]}" > $L 2>&1
./selftest/sensitivity.sh "${planted[@]}" >> $L 2>&1
./selftest/sensitivity.sh "${silent[@]}" >> $L 2>&1
basename $L >> selftest/logs/ORDER
python3 selftest/record.py
