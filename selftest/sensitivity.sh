#!/bin/bash
# sensitivity.sh [-t] [name[@C09,C10]...]  - "silent:<name>" takes selftest/silent/<name>.diff (behaviour-preserving edits, expect exit 0);
# apply each planted bug (selftest/planted/<prop>-<name>.diff, or
# seeded/<id>/patch.diff with "seeded:<id>") to a scratch copy of /repo and run the owning
# check's quick tier against it. Expect exit 1. -t also runs the pinned test suite on the copy.
export GOFLAGS=-mod=mod GOPROXY=off GOSUMDB=off GOTOOLCHAIN=local
cd /verif || exit 2
RUNTESTS=0; if [ "$1" = "-t" ]; then RUNTESTS=1; shift; fi
names=("$@")
if [ ${#names[@]} -eq 0 ]; then for f in selftest/planted/*.diff; do names+=("$(basename "$f" .diff)"); done; fi
/verif/run.sh setup >/dev/null 2>&1
printf "%-40s %-6s %-7s %-6s %s\n" planted prop tests exit first-violation
for n in "${names[@]}"; do
  over=""; if [[ "$n" == *@* ]]; then over="${n#*@}"; n="${n%%@*}"; fi   # name@C09,C10 = run these checks instead
  if [[ "$n" == seeded:* ]]; then id="${n#seeded:}"; diff="/verif/seeded/$id/patch.diff"; props=$(python3 -c "import json;m=json.load(open('/verif/seeded/$id/meta.json'));print(' '.join(m.get('checks') or [m['property']]))");
  elif [[ "$n" == silent:* ]]; then diff="/verif/selftest/silent/${n#silent:}.diff"; props="${n#silent:}"; props="${props%%-*}";   # behaviour-preserving edits: expect exit 0
  else diff="/verif/selftest/planted/$n.diff"; props="${n%%-*}"; fi
  [ -n "$over" ] && props="${over//,/ }"
  T=$(mktemp -d /tmp/verif-mut-XXXXXX)
  cp -r /repo "$T/repo"; rm -rf "$T/repo/.git"
  if ! (cd "$T/repo" && git apply "$diff") 2>"$T/apply.err"; then printf "%-40s %-6s %s\n" "$n" "$props" "PATCH DOES NOT APPLY: $(head -1 $T/apply.err)"; rm -rf "$T"; continue; fi
  tests="-"
  if [ $RUNTESTS = 1 ]; then
    if (cd "$T/repo" && go build ./... && go test -vet=off -count=1 ./... >"$T/test.log" 2>&1); then tests=pass; else tests=FAIL; fi
  fi
  for prop in $props; do
    VERIF_REPO="$T/repo" VERIF_OUT="$T/out" /verif/bin/vcheck run "$prop" --tier quick >"$T/check.log" 2>&1; rc=$?
    first=$(grep -A1 -m1 '^VIOLATION' "$T/check.log" | tail -1 | cut -c1-110)
    [ $rc = 2 ] && first=$(grep -m1 TROUBLE "$T/check.log" | cut -c1-140)
    printf "%-40s %-6s %-7s %-6s %s\n" "$n" "$prop" "$tests" "$rc" "$first"
  done
  rm -rf "$T"
done
