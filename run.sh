#!/bin/bash
# run.sh <property> <quick|thorough>   - entry point of every check in MANIFEST.json
# run.sh setup                        - build the driver and pre-warm the race-instrumented standard library
# run.sh replay <file>
export GOFLAGS=-mod=mod GOPROXY=off GOSUMDB=off GOTOOLCHAIN=local
cd /verif || exit 2
build_driver() {
  mkdir -p /verif/bin
  (cd /verif/sim && go build -o /verif/bin/vcheck ./cmd/vcheck && go build -o /verif/bin/simrewrite ./tools/simrewrite) || exit 2
}
newer=$(find /verif/sim -name '*.go' -newer /verif/bin/vcheck 2>/dev/null | head -1)
if [ ! -x /verif/bin/vcheck ] || [ ! -x /verif/bin/simrewrite ] || [ -n "$newer" ]; then build_driver; fi
case "$1" in
  setup)
    build_driver
    # pre-warm: one race build and one plain build of the worker from the current tree
    S=$(mktemp -d /tmp/verif-setup-XXXXXX)
    /verif/sim/mkscratch.sh "$S" both; rc=$?
    rm -rf "$S"
    exit $rc ;;
  replay) exec /verif/bin/vcheck replay "$2" ;;
  selftest) shift; exec /verif/bin/vcheck selftest "$@" ;;
  *) exec /verif/bin/vcheck run "$1" --tier "${2:-quick}" ;;
esac
